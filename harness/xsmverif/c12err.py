"""C12, supplement: snapshots of an interpreter in the ERROR status (monitor on the real code, both engines).

"... produces the same configurations, context, history-dependent behaviour, status, output, error flag ... as the
uninterrupted run ... re-snapshotting a restored interpreter reproduces it".  The snapshot model has no services, so no
generated run ever fails; here an invoked service raises with no `onError` (the only way into the error status) with
exceptions of several shapes: a message, no message, quotes / backslashes / non-ASCII in the message, a KeyError (whose
`str` adds quotes), a multi-argument exception.  The snapshot taken in the error status is restored and re-snapshotted
four times.  Expected, independently of the code:
  * the snapshot is valid JSON with status `error`;
  * every restored interpreter has status `error`, refuses events (configuration unchanged), and carries an error flag
    whenever the original does, with the same text;
  * every re-snapshot equals the snapshot it was restored from (all keys, the error text included).
"""
from __future__ import annotations
import asyncio
import json

from . import impl


class _Custom(Exception):
    def __str__(self):
        return "custom: " + "/".join(str(a) for a in self.args)


def _exceptions():
    return [("message", lambda: ValueError("boom")), ("no-message", lambda: ValueError()), ("quotes", lambda: RuntimeError('it\'s "q" \\ back')),
            ("non-ascii", lambda: RuntimeError("café ☃")), ("keyerror", lambda: KeyError("k")), ("two-args", lambda: OSError(2, "gone")),
            ("custom-str", lambda: _Custom("a", 1)), ("newline", lambda: ValueError("line1\nline2"))]


MACHINE = {"id": "m", "initial": "idle", "context": {"n": 1},
           "states": {"idle": {"on": {"GO": "work"}},
                      "work": {"initial": "w1", "invoke": {"id": "job", "src": "job", "onDone": "idle"},
                               "states": {"w1": {"on": {"NEXT": "w2"}}, "w2": {}}}}}


def _run(args):
    flavor, ename = args
    mk = dict(_exceptions())[ename]

    def runner(_case):
        from xstate_statemachine import Interpreter, MachineLogic, SyncInterpreter, create_machine

        def job_sync(i, c, e):
            raise mk()

        async def job_async(i, c, e):
            raise mk()
        res = {"cycles": []}

        def facts(it):
            return {"S": it.status, "C": sorted(it.current_state_ids), "err": None if it.error is None else str(it.error), "has_err": it.error is not None}

        def snap(it):
            s = it.get_persisted_snapshot()
            txt = s if isinstance(s, str) else json.dumps(s)
            return txt, json.loads(txt)

        if flavor == "sync":
            m = create_machine(json.loads(json.dumps(MACHINE)), logic=MachineLogic(services={"job": job_sync}))
            it = SyncInterpreter(m).start()
            try:
                it.send("GO")
            except Exception as x:          # noqa: BLE001
                res["send_raised"] = type(x).__name__
            res["orig"] = facts(it)
            txt, cur = snap(it)
            res["snap0"] = cur
            for _k in range(4):
                r = SyncInterpreter.from_snapshot(txt, m)
                f = facts(r)
                try:
                    r.start()
                    r.send("NEXT")
                    f["after_send"] = facts(r)
                except Exception as x:      # noqa: BLE001
                    f["send_raised"] = type(x).__name__
                r2 = SyncInterpreter.from_snapshot(txt, m)
                txt, cur = snap(r2)
                f["snap"] = cur
                res["cycles"].append(f)
                r.stop()
                r2.stop()
            it.stop()
            return res

        async def go():
            m = create_machine(json.loads(json.dumps(MACHINE)), logic=MachineLogic(services={"job": job_async}))
            it = Interpreter(m)
            await it.start()
            await it.send("GO")
            await impl._drain(it)
            for _ in range(5):
                await asyncio.sleep(0.01)
            res["orig"] = facts(it)
            txt, cur = snap(it)
            res["snap0"] = cur
            for _k in range(4):
                r = Interpreter.from_snapshot(txt, m)
                f = facts(r)
                try:
                    await r.start()
                    await r.send("NEXT")
                    await asyncio.sleep(0.01)
                    f["after_send"] = facts(r)
                except Exception as x:      # noqa: BLE001
                    f["send_raised"] = type(x).__name__
                r2 = Interpreter.from_snapshot(txt, m)
                txt, cur = snap(r2)
                f["snap"] = cur
                res["cycles"].append(f)
                await r.stop()
                await r2.stop()
            await it.stop()
            return res
        loop = impl.VirtualLoop()
        loop.set_exception_handler(lambda _l, _c: None)
        asyncio.set_event_loop(loop)
        try:
            return loop.run_until_complete(go())
        finally:
            loop.close()
            asyncio.set_event_loop(None)
    impl.RUNNERS["c12err"] = runner
    try:
        return impl.run_guarded("c12err", None, 30)
    finally:
        impl.RUNNERS.pop("c12err", None)


def problems_of(flavor, ename):
    st, r = _run((flavor, ename))
    if st != "ok":
        return [{"kind": "hang" if st == "hang" else "raw-exception", "detail": f"{st}: {r}"}], None
    out = []

    def bad(kind, detail, **kw):
        out.append(dict({"kind": kind, "detail": detail, "exception": ename}, **kw))
    o = r["orig"]
    if o["S"] != "error" or not o["has_err"]:
        bad("error-case-broken", f"the failing service did not put the interpreter into the error status: {o}")
        return out, r
    if r["snap0"].get("status") != "error":
        bad("snapshot-status", f"snapshot of a failed interpreter records status {r['snap0'].get('status')!r}")
    prev = r["snap0"]
    for k, f in enumerate(r["cycles"]):
        if f["S"] != "error":
            bad("restored-status", f"cycle {k + 1}: restored interpreter has status {f['S']!r}, the original 'error'", cycle=k + 1)
        if not f["has_err"]:
            bad("restored-error-flag-missing", f"cycle {k + 1}: restored interpreter has error None; the original carries {o['err']!r}", cycle=k + 1)
        elif f["err"] != o["err"]:
            bad("restored-error-text", f"cycle {k + 1}: restored error text {f['err']!r}, the original's is {o['err']!r}", cycle=k + 1)
        a = f.get("after_send")
        if f.get("send_raised"):
            bad("restored-send-raises", f"cycle {k + 1}: start()/send() on the restored failed interpreter raised {f['send_raised']}", cycle=k + 1)
        elif a and (a["C"] != f["C"] or a["S"] != "error"):
            bad("restored-failed-interpreter-processes-events", f"cycle {k + 1}: after send(NEXT) configuration {a['C']} status {a['S']}; before: {f['C']}", cycle=k + 1)
        if f["snap"] != prev:
            keys = sorted(x for x in set(prev) | set(f["snap"]) if prev.get(x) != f["snap"].get(x))
            bad("resnapshot-differs", f"cycle {k + 1}: re-snapshot differs from the snapshot it was restored from in {keys}: "
                f"{ {x: (prev.get(x), f['snap'].get(x)) for x in keys[:2]} }", cycle=k + 1, keys=keys)
        prev = f["snap"]
    return out, r


def c12_error_status(tier, seed):
    fails, samples = [], []
    evals = nontrivial = 0
    for flavor in ("sync", "async"):
        for ename, _mk in _exceptions():
            evals += 1
            probs, r = problems_of(flavor, ename)
            if probs and probs[0]["kind"] == "hang":
                probs, r = problems_of(flavor, ename)
            for p in probs:
                fails.append(dict(p, flavor=flavor, case={"c12err": {"exception": ename}}))
            if not probs:
                nontrivial += 1
                if len(samples) < 1:
                    samples.append({"flavor": flavor, "exception": ename, "snapshot_error": r["snap0"].get("error"), "restored_error": r["cycles"][-1]["err"]})
    return {"evaluations": evals, "nontrivial": nontrivial, "ties": [], "fails": fails, "samples": samples, "exhaustive": True,
            "what": f"snapshots taken in the ERROR status (invoked service raising {len(_exceptions())} shapes of exception, no onError), both engines: restored + "
                    "re-snapshotted four times - status error, error flag present with the original text, events refused, every re-snapshot equal to its source"}


def replay_problems(payload, flavor):
    out = []
    for fl in ([flavor] if flavor in ("sync", "async") else ["sync", "async"]):
        probs, _r = problems_of(fl, payload["exception"])
        out += [dict(p, step=-1, at=None) for p in probs]
    return out
