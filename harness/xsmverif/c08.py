"""C08 / C09 — delayed (`after`) transitions and invoked services on a controllable clock.

Real engines:
  * async `Interpreter` on `VLoop`, an asyncio loop whose clock is virtual (integer milliseconds, jumps
    to the next deadline when nothing is ready) and whose timer handles are ordered by (deadline,
    creation order), so every run is deterministic;
  * sync `SyncInterpreter` with `sync_interpreter.threading/.time/.uuid` replaced (in the harness
    process only) by a cooperative shim on the same kind of virtual clock.
Model: `lean/Xsm/Model/Runtime.lean` through the `driver_rt` executable (one `RUN` per case).

A case is {"machine", "guards", "logic": {"delays": {name: ms}, "services": {name: {"coro","dur","ok"}}},
           "agenda": [[t, "send", E] | [t, "stop"] | [t, "obs"]], "horizon": ms}.
Every run yields a chronological list of time-stamped records (the same vocabulary on both sides):
  name@event   an action ran          #recv:type   the run loop dequeued an event
  #t:ids       a transition finished  arm:owner:type/delay,...   timers armed by one entry
  send:type:status   `send` was called (by a timer, a service, the harness)
  svc-start:id / svc-end:id:ok|raise   a service was called / returned or raised
  stop, obs:ids;status;tasks=n

`stop` INSIDE the macrostep in flight (findings F72 - F74): profiles with the option `stopin` place the stop in the instant of an
input, strictly inside a slow action, or in the very instant in which it ends; the runners report whether stop() found a macrostep
in flight (`stop_in_flight`), what was armed / invoked while the status was `stopped` (`late`) and what was alive when that stop()
returned. What is compared with the model there: `compare` / `stop_variant` (switched by the findings ledger).
"""
from __future__ import annotations
import asyncio, copy, heapq, json, logging, os, random, selectors, signal, subprocess, sys, itertools, collections

logging.disable(logging.WARNING)

from xstate_statemachine import create_machine, SyncInterpreter, Interpreter, MachineLogic  # noqa: E402
from xstate_statemachine.exceptions import XStateMachineError  # noqa: E402
from xstate_statemachine.plugins import PluginBase  # noqa: E402
from xstate_statemachine.actions import BUILTIN_ACTION_ALIASES  # noqa: E402

from . import impl, modelio  # noqa: E402

DRIVER_RT = os.path.join(modelio.LEAN_DIR, ".lake", "build", "bin", "driver_rt")
canon_ev = impl.canon_ev


# ------------------------------------------------------------------------------------------- virtual asyncio clock
class _SeqHandle(asyncio.TimerHandle):
    __slots__ = ("_seq",)

    def __lt__(self, other):
        return (self._when, self._seq) < (other._when, other._seq)

    def __le__(self, other):
        return (self._when, self._seq) <= (other._when, other._seq)

    def __gt__(self, other):
        return (self._when, self._seq) > (other._when, other._seq)

    def __ge__(self, other):
        return (self._when, self._seq) >= (other._when, other._seq)


class VLoop(asyncio.SelectorEventLoop):
    """virtual clock in integer milliseconds; equal deadlines fire in creation order"""

    def __init__(self):
        super().__init__(selectors.SelectSelector())
        self.ms = 0
        self._seqc = itertools.count()
        self.fin = None          # end of the run: a future resolved once everything up to and including `fin_ms` is done
        self.fin_ms = 0

    def time(self):
        return self.ms / 1000.0

    def call_at(self, when, callback, *args, context=None):
        self._check_closed()
        ms = int(round(when * 1000.0))
        h = _SeqHandle(ms / 1000.0, callback, args, self, context)
        h._seq = next(self._seqc)
        heapq.heappush(self._scheduled, h)
        h._scheduled = True
        return h

    def _run_once(self):
        while self._scheduled and self._scheduled[0]._cancelled:
            h = heapq.heappop(self._scheduled)
            h._scheduled = False
        if not self._ready:
            ms = int(round(self._scheduled[0]._when * 1000.0)) if self._scheduled else None
            if self.fin is not None and not self.fin.done() and (ms is None or ms > self.fin_ms):
                # the run is over: every instant up to the horizon is finished and NOTHING is ready. The harness's
                # own coroutine resumes here, at a quiet point — its final read-out and its clean-up `stop()` are not
                # stimuli of the test and must not share an instant with a wake-up of the interpreter (a `stop()`
                # that lands in the instant in which a slow action of the macrostep in flight ends lets the rest of
                # that macrostep run behind `cancel_all()`; agendas that do that on purpose carry a `stop` input)
                if self.fin_ms > self.ms:
                    self.ms = self.fin_ms
                self.fin.set_result(None)
            elif ms is not None and ms > self.ms:
                self.ms = ms
        super()._run_once()


# ------------------------------------------------------------------------------------------- recorder logic
class Actions(dict):
    def __init__(self, rec, sleeper=None, datalog=None):
        super().__init__()
        self.rec = rec
        self.sleeper = sleeper
        self.datalog = datalog

    def get(self, k, d=None):
        if k in BUILTIN_ACTION_ALIASES or k.startswith("missing:"):
            return None
        rec = self.rec
        if k.startswith("async:"):
            parts = k.split(":")
            dur = int(parts[2]) if len(parts) == 3 and parts[1] == "sleep" else 0

            async def af(i, c, e, a, _k=k, _d=dur):
                if _d:
                    await asyncio.sleep(_d / 1000.0)
                rec(f"{_k}@{canon_ev(e.type)}")
            return af
        sleeper = self.sleeper

        datalog = self.datalog

        def f(i, c, e, a, _k=k):
            if _k.startswith("sleep:") and sleeper is not None:
                sleeper(int(_k.split(":")[1]))
            rec(f"{_k}@{canon_ev(e.type)}")
            if _k.startswith(("od:", "oe:")) and datalog is not None:
                d = getattr(e, "data", None)
                if isinstance(d, dict) and "from" in d:
                    datalog.append([_k, e.type, ["ok", d.get("from"), d.get("n")]])
                elif isinstance(d, SvcRaises):
                    iid_, _, n_ = str(d).partition("#")
                    datalog.append([_k, e.type, ["raise", iid_, int(n_ or 0)]])
                else:
                    datalog.append([_k, e.type, ["?", repr(d)[:60], 0]])
            if _k.startswith("fail:"):
                raise impl.ActionRaises(_k)
            if _k.startswith("inc:"):
                key = _k.split(":")[1]
                c[key] = int(c.get(key, 0)) + 1
            elif _k.startswith("set:"):
                _, key, val = _k.split(":")[:3]
                c[key] = int(val)
        return f

    def __contains__(self, k):
        return self.get(k) is not None


class Plugin(PluginBase):
    def __init__(self, rec):
        self.rec = rec

    def on_transition(self, interpreter, from_states, to_states, transition):
        if transition.event in impl.INIT_NAMES:
            return
        self.rec("#t:" + ",".join(sorted(n.id for n in interpreter._active_state_nodes)))

    def on_event_received(self, interpreter, event):
        self.rec("#recv:" + event.type)

    def on_action_error(self, interpreter, action, error):
        self.rec("#aerr:" + action.type)


class SvcRaises(Exception):
    pass


def mk_services(specs, rec, is_async, inputs=None, ends=None, log=None):
    """services from the case's table. Every call gets a serial number (per invoke id) that travels with its
    result, so a handler can be attributed to the call that produced the result it sees."""
    out = {}
    inputs = inputs if inputs is not None else []
    ends = ends if ends is not None else []
    serial = collections.Counter()
    for name, sp in specs.items():
        if sp.get("coro"):
            async def svc(i, ctx, ev, _sp=sp):
                iid = ev.type[len("invoke."):]
                serial[iid] += 1
                n = serial[iid]
                rec("svc-start:" + iid)
                inputs.append([iid, ev.payload.get("input")])
                await asyncio.sleep(_sp["dur"] / 1000.0)
                rec("svc-end:" + iid + (":ok" if _sp["ok"] else ":raise"))
                ends.append([iid, n, len(log) - 1 if log is not None else -1])
                if not _sp["ok"]:
                    raise SvcRaises(f"{iid}#{n}")
                return {"from": iid, "n": n}
        else:
            def svc(i, ctx, ev, _sp=sp):
                iid = ev.type[len("invoke."):]
                serial[iid] += 1
                n = serial[iid]
                rec("svc-start:" + iid)
                inputs.append([iid, ev.payload.get("input")])
                rec("svc-end:" + iid + (":ok" if _sp["ok"] else ":raise"))
                ends.append([iid, n, len(log) - 1 if log is not None else -1])
                if not _sp["ok"]:
                    raise SvcRaises(f"{iid}#{n}")
                return {"from": iid, "n": n}
        out[name] = svc
    return out


def mklogic(case, rec, is_async, sleeper=None, out=None):
    lg = MachineLogic()
    lg.guards = impl.RecorderGuards(case.get("guards", {}))
    out = out if out is not None else {}
    out.setdefault("datalog", [])
    out.setdefault("inputs", [])
    out.setdefault("census", [])
    lg.actions = Actions(rec, sleeper, out["datalog"])
    L = case.get("logic", {})
    out.setdefault("svc_ends", [])
    lg.services = mk_services(L.get("services", {}), rec, is_async, out["inputs"], out["svc_ends"], out.get("log"))
    lg.delays = dict(L.get("delays", {}))
    return lg


def _instrument(it, rec, late=None):
    """observation only: log every `_after_timer` (arming) and every `send` call, then do the real thing.
    `late`: collects what is armed / invoked while the status is `stopped` (a `stop()` that landed inside the macrostep in flight)"""
    pending = []
    orig_after = it._after_timer

    def after_timer(delay_sec, event, owner_id):
        pending.append((owner_id, event.type, int(round(delay_sec * 1000))))
        if late is not None and it.status == "stopped":
            late.append(["timer", owner_id, event.type])
        return orig_after(delay_sec, event, owner_id=owner_id)
    it._after_timer = after_timer
    orig_sched = it._schedule_state_tasks

    def sched(state):
        # timers of one `_schedule_state_tasks` call are reported in one record, before the services run
        orig_inv = it._invoke_service
        flushed = [False]

        def flush():
            if not flushed[0]:
                flushed[0] = True
                if pending:
                    rec("arm:" + state.id + ":" + ",".join(f"{t}/{d}" for (_o, t, d) in pending))
                    pending.clear()

        def inv(invocation, service, owner_id):
            flush()
            if late is not None and it.status == "stopped":
                late.append(["service", owner_id, invocation.id])
            return orig_inv(invocation, service, owner_id=owner_id)
        it._invoke_service = inv
        try:
            return orig_sched(state)
        finally:
            it._invoke_service = orig_inv
            flush()
    it._schedule_state_tasks = sched
    return it


def _tasks_alive_async(it):
    return sum(1 for ts in it.task_manager._tasks_by_owner.values() for t in ts if not t.done())


# ------------------------------------------------------------------------------------------- async runner
async def _run_async(case, out):
    loop = asyncio.get_running_loop()
    log = out["log"]

    def rec(r):
        log.append([loop.ms, r])
    machine = create_machine(copy.deepcopy(case["machine"]), logic=mklogic(case, rec, True, out=out))
    it = Interpreter(machine)
    it.use(Plugin(rec))
    out["late"] = []                              # armed / invoked on a stopped interpreter
    _instrument(it, rec, out["late"])
    orig_send = it.send

    async def send(ev, **kw):
        rec("send:" + (ev if isinstance(ev, str) else ev.type) + ":" + it.status)
        return await orig_send(ev, **kw)
    it.send = send
    cnt = impl._COUNTER
    cnt.reset()
    out["it"] = it

    def obs():
        ids = sorted(n.id for n in it._active_state_nodes)
        rec("obs:" + ",".join(ids) + ";" + it.status + ";tasks=" + str(_tasks_alive_async(it)))
        if not it._processing:
            out["census"].append([loop.ms, sorted(o for o, ts in it.task_manager._tasks_by_owner.items()
                                                   if any(not t.done() for t in ts) and o not in ids)])

    pending_stops = []

    def own_tasks():
        # the interpreter's own tasks that are alive, tracked by its task manager or not (`cancel_all` forgets, with
        # `_tasks_by_owner.clear()`, whatever was created while it awaited the cancellations)
        me = asyncio.current_task(loop)
        return [t for t in asyncio.all_tasks(loop) if t is not me and not t.done() and t not in pending_stops
                and getattr(t.get_coro(), "__qualname__", "").startswith("Interpreter.") and t is not it._event_loop_task]

    async def stop_op():
        # an agenda `stop`: was a macrostep in flight when stop() set the status? what is alive when it returns?
        # (the `stop` record is written HERE, when stop() is really called — the first step of this task —, not when the
        #  task is created: an input of the same instant has woken the run loop before, and its macrostep comes first)
        first = it.status not in ("uninitialized", "stopped")
        if first:
            rec("stop")
            out["stop_in_flight"] = bool(it._processing) or bool(out.get("starting"))
        await it.stop()
        if first:
            out["stop_returned"] = [loop.ms, len(log)]
            out["alive_at_stop_return"] = len(own_tasks())
            out["late_at_stop_return"] = len(out["late"])

    def do_op(op):
        # runs as a loop callback at the op's time (all ops are scheduled before the interpreter starts,
        # so at equal deadlines an external input goes first)
        if op[1] == "send":
            c = send(op[2])
            try:
                c.send(None)      # `send` never suspends (unbounded queue): run it to completion here
            except StopIteration:
                pass
        elif op[1] == "stop":
            pending_stops.append(loop.create_task(stop_op()))
        elif op[1] == "obs":
            obs()
    for op in case["agenda"]:
        loop.call_at(op[0] / 1000.0, do_op, op)
    fin = loop.create_future()
    loop.fin, loop.fin_ms = fin, int(case["horizon"])     # resolved by the loop when the horizon's instant is over
    out["starting"] = True                      # start() has not returned: the initial entry is a macrostep in flight, too
    try:
        await it.start()
    except XStateMachineError as x:
        out["start_error"] = type(x).__name__
    out["starting"] = False
    await fin
    out["C"] = sorted(n.id for n in it._active_state_nodes)
    out["S"] = it.status
    out["tasks"] = _tasks_alive_async(it)
    out["X"] = cnt.n
    out["queue"] = it._event_queue.qsize()
    out["error"] = type(it.error).__name__ if getattr(it, "error", None) is not None else ""
    out["flavor"] = "async"
    out["in_flight"] = bool(it._processing)       # the run ended while the run loop was suspended inside a macrostep
    for t in pending_stops:
        await t
    await it.stop()
    await asyncio.sleep(0)
    out["alive_after_stop"] = _tasks_alive_async(it) + sum(
        1 for t in asyncio.all_tasks(loop) if t is not asyncio.current_task() and not t.done())
    # ... and after an agenda `stop`: what was alive when that stop() returned + what was created after it had returned
    out["alive_after_stop"] += out.get("alive_at_stop_return", 0) + (len(out["late"]) - out.get("late_at_stop_return", len(out["late"])))


def run_async(case):
    loop = VLoop()
    loop.set_exception_handler(lambda _l, _c: None)
    asyncio.set_event_loop(loop)
    out = {"log": []}
    try:
        loop.run_until_complete(_run_async(case, out))
    finally:
        try:
            for t in asyncio.all_tasks(loop):
                t.cancel()
            loop.run_until_complete(asyncio.sleep(0))
        except BaseException:
            pass
        loop.close()
        asyncio.set_event_loop(None)
    out.pop("it", None)
    return out


# ------------------------------------------------------------------------------------------- sync runner (thread shim)
import threading as _rt


class _RunOver(BaseException):
    pass


class VSched:
    """Deterministic cooperative 'threads' on a virtual clock (integer ms), backed by real threads that run one
    at a time. Sleepers wake in (deadline, order of going to sleep); newly started threads run as soon as the
    running one parks or ends, in creation order. Replaces `sync_interpreter.threading/.time/.uuid` in the
    harness process for the duration of one run."""

    def __init__(self):
        self.ms = 0
        self.tid = itertools.count()
        self.pseq = itertools.count()
        self.threads = []
        self.ctl = _rt.Semaphore(0)
        self.current = None
        self.dead = False

    # controller side
    def _resume(self, vt):
        prev, self.current = self.current, vt
        vt.sem.release()
        self.ctl.acquire()
        self.current = prev

    def _ready(self, before=None):
        out = []
        for vt in self.threads:
            if vt.done or not vt.started:
                continue
            if vt.blocked is None:
                out.append((0, vt.id, vt))                 # never ran / just released
            else:
                ev, deadline, pseq = vt.blocked
                if ev is not None and ev.flag:
                    out.append((1, pseq, vt))
                elif deadline is not None and deadline <= self.ms and (before is None or (deadline, pseq) < before):
                    out.append((2, (deadline, pseq), vt))
        # new threads first (they only go to sleep), then the due sleepers in (deadline, park order)
        return sorted(out, key=_ready_key)

    def run_ready(self, before=None):
        """`before` = (deadline, park order) of a sleeping controller: only sleepers that wake strictly before it run"""
        while not self.dead:
            r = self._ready(before)
            if not r:
                return
            self._resume(r[0][2])

    def next_deadline(self):
        ds = [vt.blocked[1] for vt in self.threads
              if vt.started and not vt.done and vt.blocked and vt.blocked[1] is not None and not (vt.blocked[0] and vt.blocked[0].flag)]
        return min(ds) if ds else None

    def advance(self, t):
        self.run_ready()
        while not self.dead:
            d = self.next_deadline()
            if d is None or d > t:
                break
            self.ms = max(self.ms, d)
            self.run_ready()
        self.ms = max(self.ms, t)

    # thread side
    def park(self, ev, timeout_ms):
        vt = self.current
        deadline = None if timeout_ms is None else self.ms + timeout_ms
        if vt is None:                      # the controller itself sleeps: let the others run meanwhile
            if timeout_ms is None:
                raise RuntimeError("controller would block forever")
            mine = next(self.pseq)
            while True:
                # (a sleeper with the controller's own deadline that went to sleep AFTER it must not run yet, even when
                #  another one with that deadline, which went to sleep before it, is due: (deadline, park order) is the order)
                self.run_ready((deadline, mine))
                if ev is not None and ev.flag:
                    return
                d = self.next_deadline()
                if d is None or d > deadline:
                    self.ms = deadline
                    return
                # sleepers with the same deadline that went to sleep before the controller wake first
                if d == deadline:
                    first = [v for v in self.threads if v.started and not v.done and v.blocked and v.blocked[1] == d and v.blocked[2] < mine
                             and not (v.blocked[0] and v.blocked[0].flag)]
                    if not first:
                        self.ms = deadline
                        return
                self.ms = max(self.ms, d)
        vt.blocked = (ev, deadline, next(self.pseq))
        self.ctl.release()
        vt.sem.acquire()
        vt.blocked = None
        if self.dead:                       # the run is over: unwind this thread instead of letting it go on
            raise _RunOver()


def _ready_key(x):
    kind, k, _vt = x
    if kind == 0:
        return (0, k, 0)
    if kind == 2:
        return (1, k[0], k[1])
    return (1, -1, k)          # released by an event flag: at once, in park order


class VEvent:
    def __init__(self, s):
        self.s = s
        self.flag = False

    def set(self):
        self.flag = True

    def clear(self):
        self.flag = False

    def is_set(self):
        return self.flag

    def wait(self, timeout=None):
        if self.flag:
            return True
        self.s.park(self, None if timeout is None else int(round(timeout * 1000)))
        return self.flag


class VThread:
    def __init__(self, s, target=None, name=None, daemon=None, args=(), kwargs=None):
        self.s, self.target, self.name, self.daemon = s, target, name, daemon
        self.args, self.kwargs = args, kwargs or {}
        self.id = next(s.tid)
        self.sem = _rt.Semaphore(0)
        self.started = self.done = False
        self.blocked = None
        s.threads.append(self)

    def _run(self):
        self.sem.acquire()
        try:
            if not self.s.dead:
                self.target(*self.args, **self.kwargs)
        except BaseException:
            pass
        finally:
            self.done = True
            self.s.ctl.release()

    def start(self):
        self.started = True
        _rt.Thread(target=self._run, daemon=True).start()

    def is_alive(self):
        return self.started and not self.done

    def join(self, timeout=None):
        pass


class _ThreadingShim:
    def __init__(self, s):
        self.Event = lambda: VEvent(s)
        self.Thread = lambda *a, **k: VThread(s, *a, **k)
        self.enumerate = lambda: [t for t in s.threads if t.is_alive()]
        self.current_thread = _rt.current_thread
        self.Lock, self.RLock = _rt.Lock, _rt.RLock


class _TimeShim:
    def __init__(self, s):
        self.s = s

    def sleep(self, d):
        self.s.park(None, int(round(d * 1000)))

    def time(self):
        return self.s.ms / 1000.0

    monotonic = time
    perf_counter = time


class _UuidShim:
    def __init__(self):
        self.c = itertools.count()

    def uuid4(self):
        return f"u{next(self.c):04d}"


def run_sync(case):
    import xstate_statemachine.sync_interpreter as SI
    sched = VSched()
    saved = (SI.threading, SI.time, SI.uuid)
    SI.threading, SI.time, SI.uuid = _ThreadingShim(sched), _TimeShim(sched), _UuidShim()
    out = {"log": [], "flavor": "sync"}
    log = out["log"]

    def rec(r):
        log.append([sched.ms, r])
    try:
        machine = create_machine(copy.deepcopy(case["machine"]),
                                 logic=mklogic(case, rec, False, sleeper=lambda ms: sched.park(None, ms), out=out))
        it = SyncInterpreter(machine)
        it.use(Plugin(rec))
        out["late"] = []
        _instrument(it, rec, out["late"])
        orig_send = it.send

        def send(ev, **kw):
            rec("send:" + (ev if isinstance(ev, str) else ev.type) + ":" + it.status)
            return orig_send(ev, **kw)
        it.send = send
        errors = [0]

        def waiting():
            # timers that are armed and have not expired: their thread has not run yet or waits on its cancel
            # event (a thread that is delivering its expiry is no longer a pending timer)
            ks = []
            for k, th in list(it._after_threads.items()):
                if k in it._after_events and not th.done and (th.blocked is None and th is not sched.current or
                                                              (th.blocked is not None and th.blocked[0] is not None)):
                    ks.append(k)
            return ks

        def alive():
            return len(waiting())

        def op_thread(op):
            # an external caller: sleeps until its time, then acts (created before start(): first at ties)
            sched.park(None, op[0] - sched.ms)
            try:
                if op[1] == "send":
                    send(op[2])
                elif op[1] == "stop":
                    first = it.status not in ("uninitialized", "stopped")
                    if first:
                        rec("stop")
                        out["stop_in_flight"] = bool(it._is_processing)
                    it.stop()
                    if first:
                        out["stop_returned"] = [sched.ms, len(log)]
                        out["alive_at_stop_return"] = alive()
                        out["late_at_stop_return"] = len(out["late"])
                elif op[1] == "obs":
                    ids = sorted(n.id for n in it._active_state_nodes)
                    rec("obs:" + ",".join(ids) + ";" + it.status + ";tasks=" + str(alive()))
                    if not it._is_processing:
                        out["census"].append([sched.ms, sorted({k.split("::")[0] for k in waiting()} - set(ids))])
            except XStateMachineError:
                errors[0] += 1
        for op in case["agenda"]:
            VThread(sched, target=op_thread, args=(op,)).start()
        sched.run_ready()                      # they all go to sleep, in agenda order
        try:
            it.start()
        except XStateMachineError as x:
            out["start_error"] = type(x).__name__
        sched.advance(case["horizon"])
        out["C"] = sorted(n.id for n in it._active_state_nodes)
        out["S"] = it.status
        out["tasks"] = alive()
        out["X"] = 0
        out["queue"] = len(it._event_queue)
        out["error"] = type(it.error).__name__ if getattr(it, "error", None) is not None else ""
        out["in_flight"] = bool(getattr(it, "_is_processing", False))
        it.stop()
        sched.run_ready()
        # timer threads still WAITING after stop() (one that is in the middle of delivering its expiry when the run
        # ends is not a pending timer)
        out["alive_after_stop"] = sum(1 for t in sched.threads if t.is_alive() and (t.name or "").startswith("after-")
                                      and t.blocked is not None and t.blocked[0] is not None and not t.blocked[0].flag)
        # ... and after an agenda `stop`: timer threads waiting when that stop() returned + timers armed after it had returned
        out["alive_after_stop"] += out.get("alive_at_stop_return", 0) + sum(1 for x in out["late"][out.get("late_at_stop_return", len(out["late"])):] if x[0] == "timer")
    finally:
        sched.dead = True
        for vt in sched.threads:             # release whatever is still parked so the real threads end
            if vt.started and not vt.done:
                vt.sem.release()
        SI.threading, SI.time, SI.uuid = saved
    return out


RUNNERS = {"async": run_async, "sync": run_sync}


def run_guarded(flavor, case, timeout=10):
    old = signal.signal(signal.SIGALRM, impl._alarm)
    impl._HUNG[0] = False
    signal.setitimer(signal.ITIMER_REAL, timeout, 0.2)
    try:
        r = RUNNERS[flavor](case)
        signal.setitimer(signal.ITIMER_REAL, 0)
        if impl._HUNG[0]:
            return ("hang", None)
        return ("ok", r)
    except impl.Hang:
        return ("hang", None)
    except RecursionError:
        return ("crash", "RecursionError")
    except Exception as x:
        if impl._HUNG[0]:
            return ("hang", None)
        return ("crash", f"RAW:{type(x).__name__}: {x}"[:300])
    finally:
        signal.setitimer(signal.ITIMER_REAL, 0)
        signal.signal(signal.SIGALRM, old)


# ------------------------------------------------------------------------------------------- model client
def model_lines(case, flavor):
    gv = case.get("guards", {})
    return ["M " + json.dumps(case["machine"]),
            "G " + " ".join(f"{k}={v}" for k, v in gv.items()),
            "L " + json.dumps(case.get("logic", {})),
            f"F {flavor}",
            "RUN " + json.dumps({"agenda": case["agenda"], "horizon": case["horizon"]})]


def run_model_many(flavor, cases, chunk=100):
    res = []
    for i in range(0, len(cases), chunk):
        lines = []
        for c in cases[i:i + chunk]:
            lines.extend(model_lines(c, flavor))
        r = subprocess.run([DRIVER_RT], input="\n".join(lines) + "\n", capture_output=True, text=True, timeout=600)
        if r.returncode != 0:
            raise RuntimeError(f"driver_rt exit {r.returncode}: {r.stderr[:400]}")
        out = r.stdout.split("\n")
        for k in range(len(cases[i:i + chunk])):
            ans = [json.loads(x) for x in out[5 * k:5 * k + 5]]
            if not ans[0].get("ok"):
                res.append(("reject", ans[0].get("err", "")))
            else:
                res.append(("ok", ans[4]))
    return res


def canon_log(log):
    out = []
    for t, r in log:
        if r.startswith("#t:"):
            r = "#t:" + ",".join(sorted(x for x in r[3:].split(",") if x))
        elif r.startswith("obs:"):
            ids, rest = r[4:].split(";", 1)
            r = "obs:" + ",".join(sorted(x for x in ids.split(",") if x)) + ";" + rest
        elif r.startswith("send:"):
            _s, rest = r.split(":", 1)
            ty, st = rest.rsplit(":", 1)
            r = "send:" + canon_ev(ty) + ":" + st
        elif "@" in r and not r.startswith("#"):
            a, e = r.rsplit("@", 1)
            r = a + "@" + canon_ev(e)
        out.append([t, r])
    # the rollback re-arms states in set-iteration order: runs of adjacent `arm:` records are sorted
    i = 0
    while i < len(out):
        j = i
        while j < len(out) and out[j][1].startswith("arm:") and out[j][0] == out[i][0]:
            j += 1
        if j - i > 1:
            out[i:j] = sorted(out[i:j])
        i = max(j, i + 1)
    return out


def diff_run(iout, mout, cut=None):
    a, b = canon_log(iout["log"]), canon_log(mout["log"])
    late = False
    if cut is not None:
        late = any(t > cut for t, _ in a) or any(t > cut for t, _ in b)
        a = [x for x in a if x[0] <= cut]
        b = [x for x in b if x[0] <= cut]
    for k in range(min(len(a), len(b))):
        if a[k] != b[k]:
            return {"at": k, "impl": a[max(0, k - 2):k + 3], "model": b[max(0, k - 2):k + 3]}
    if len(a) != len(b):
        k = min(len(a), len(b))
        return {"at": k, "impl": a[k:k + 4], "model": b[k:k + 4], "len": [len(a), len(b)]}
    for key in (() if late else ("C", "S", "tasks", "X", "queue")):
        x, y = iout.get(key), mout.get(key)
        if key == "C":
            x, y = sorted(x), sorted(y)
        if x != y:
            return {"at": "final", "field": key, "impl": x, "model": y}
    return None


def diff_to_stop(iout, mout):
    """both logs up to and including their first `stop` record (None: they agree that far)"""
    a, b = canon_log(iout["log"]), canon_log(mout["log"])
    ia = next((k for k, (_t, r) in enumerate(a) if r == "stop"), None)
    ib = next((k for k, (_t, r) in enumerate(b) if r == "stop"), None)
    if ia is None or ib is None:
        return {"at": "stop", "impl": ia, "model": ib} if ia != ib else None
    a, b = a[:ia + 1], b[:ib + 1]
    for k in range(min(len(a), len(b))):
        if a[k] != b[k]:
            return {"at": k, "impl": a[max(0, k - 2):k + 3], "model": b[max(0, k - 2):k + 3], "upto": "stop"}
    if len(a) != len(b):
        k = min(len(a), len(b))
        return {"at": k, "impl": a[k:k + 4], "model": b[k:k + 4], "len": [len(a), len(b)], "upto": "stop"}
    return None


def stop_variant():
    """what the REST of a macrostep does when stop() lands inside it — the runtime model follows the code as the findings
    ledger describes it: while a finding with the classifier `stop-inside-macrostep-rest-runs` is OPEN the code lets the rest of
    the macrostep run on the stopped interpreter, and so does the model (`extQ .stop` inside `window`, then `enterStepRT` /
    `scheduleRT` as for a running interpreter): "rest-runs". Once it is repaired (no such open finding) the rest of the
    macrostep is cut short, which the model does not describe: "cut" — such runs are compared up to the stop only."""
    return "rest-runs" if any(f.get("classifier") == "stop-inside-macrostep-rest-runs" for f in _open_findings("C08") + _open_findings("C09")) else "cut"


def compare(c, flavor, iout, mout, cut, hist):
    """model vs code for one run (None: they agree). A `stop` that lands INSIDE a macrostep, or in the instant of a `send`:
      * sync, variant rest-runs: the whole run is compared — the model lets the rest of the macrostep run, like the code;
      * async: the whole run is compared; when it differs the comparison falls back to everything up to and including the `stop`
        record: stop() awaits `cancel_all()` and then CANCELS the run loop at its suspension point, so whether the rest of the
        macrostep runs (the slow action ends in that very instant and there is something to await), is cut short at a later
        suspension point or does not run at all is decided inside asyncio — the model always lets it run (monitored only);
      * a `stop` in the very instant of a `send`, not in flight (async): the stop() task's first step comes right behind the run
        loop's turn, AHEAD of the sleepers due at that instant and of the tasks the macrostep created; the model handles the
        instant's wake-ups first — when the whole run differs, everything BEFORE that instant is compared;
      * variant cut (the library repaired): up to the stop, both engines."""
    t_stop = next((a[0] for a in c["agenda"] if a[1] == "stop"), None)
    in_flight = bool(iout.get("stop_in_flight"))
    same_instant = t_stop is not None and any(a[1] == "send" and a[0] == t_stop for a in c["agenda"])
    if t_stop is None or not (in_flight or (same_instant and flavor == "async")):
        mrec = [r for _t, r in mout["log"]]
        if "stop" in mrec and any(not r.startswith(("send:", "obs:", "svc-")) for r in mrec[mrec.index("stop") + 1:]):
            # (the model sees the stop inside a macrostep, the code did not: e.g. the macrostep ended in that instant)
            hist["stop_inside_a_macrostep_in_the_model_only(compared up to the stop)"] += 1
            return diff_to_stop(iout, mout)
        return diff_run(iout, mout, cut)
    variant = stop_variant()
    if in_flight:
        hist[f"stop_inside_a_macrostep[{variant}]"] += 1
    if variant == "rest-runs" or not in_flight:
        d = diff_run(iout, mout, cut)
        if d is None:
            if in_flight:
                hist["stop_inside_a_macrostep:whole_run_agrees_with_the_model"] += 1
            return None
        if flavor == "sync":
            return d
    if not in_flight:
        hist["stop_in_the_instant_of_a_send(compared up to that instant)"] += 1
        return diff_run(iout, mout, t_stop - 1)
    hist["stop_inside_a_macrostep(compared up to the stop)"] += 1
    return diff_to_stop(iout, mout)


# ------------------------------------------------------------------------------------------- generator
EVENTS = ["E0", "E1", "E2", "R"]
SERVICES = {
    "svcOk": {"coro": True, "dur": 200, "ok": True},
    "svcBad": {"coro": True, "dur": 200, "ok": False},
    "svcFast": {"coro": True, "dur": 100, "ok": True},
    "svcLong": {"coro": True, "dur": 500, "ok": True},
    "plainOk": {"coro": False, "dur": 0, "ok": True},
    "plainBad": {"coro": False, "dur": 0, "ok": False},
}
DELAYS = {"D1": 100, "D2": 300}       # "DX" is deliberately not defined
# the same-instant family ("instant" profiles): everything takes 100 ms (or a multiple), so that expiries,
# completions, the end of slow actions, task starts and external inputs coincide at one instant of the virtual clock
INST_SERVICES = dict(SERVICES, svcBadFast={"coro": True, "dur": 100, "ok": False})
INST_SRC = ["svcFast", "svcFast", "svcFast", "svcBadFast", "svcOk", "svcBad", "plainOk", "plainOk", "plainBad"]


def _after_block(rng, sid, names, key, opts):
    """`after` value of one state: {delay-key: transition | [alternatives]}"""
    out = {}
    nkeys = rng.choice([1, 1, 1, 2, 2, 3])
    pool = ["100", "200", "300", "400"] + (["D1", "D2", "DX"] if opts.get("named", True) else [])
    if opts.get("instant"):
        pool = ["100", "D1", "200"]           # "100" and "D1" are two timers with the same deadline
    keys = rng.sample(pool, nkeys)
    slot = 0
    for k in keys:
        alts = []
        for j in range(rng.choice([1, 1, 1, 2]) if opts.get("alts", True) else 1):
            t = {"actions": [f"af:{key}:{slot}"]}
            slot += 1
            r = rng.random()
            if r < 0.55:
                t["target"] = rng.choice(names)
            elif r < 0.75:
                t["target"] = sid.split(".")[-1] if "." not in sid else None
                if t["target"] is None:
                    del t["target"]
                else:
                    t["reenter"] = rng.random() < 0.7
            if rng.random() < 0.3:
                t["guard"] = rng.choice(["g0", "g1", "g2"])
            if opts.get("slow") and rng.random() < 0.15:
                t["actions"] = ["async:sleep:100"] + t["actions"]
            alts.append(t)
        out[k] = alts[0] if len(alts) == 1 and rng.random() < 0.6 else alts
    return out


def _invoke_block(rng, key, names, opts):
    n = rng.choice([1, 1, 2])
    out = []
    for j in range(n):
        iid = f"i{key}{j}"
        inv = {"src": rng.choice(INST_SRC if opts.get("instant") else
                                 list(SERVICES) if opts.get("plain", True) else ["svcOk", "svcBad", "svcFast", "svcLong"])}
        if rng.random() < 0.8:
            inv["id"] = iid
        elif j > 0:
            inv["id"] = iid
        tag = inv.get("id", "_")
        plain = inv["src"].startswith("plain") or opts.get("all_plain")     # (a handler of an instantaneous service rarely moves on:
        od = {"actions": [f"od:{key}:{j}"]}        #  chains of them are zero-time loops, a hang of the machine itself)
        if rng.random() < ((0.12 if opts.get("all_plain") else 0.2) if plain else 0.7):
            od["target"] = rng.choice(names)
        inv["onDone"] = od
        if rng.random() < 0.6:
            oe = {"actions": [f"oe:{key}:{j}"]}
            if rng.random() < ((0.12 if opts.get("all_plain") else 0.2) if plain else 0.6):
                oe["target"] = rng.choice(names)
            inv["onError"] = oe
        out.append(inv)
    return out if len(out) > 1 or rng.random() < 0.3 else out[0]


def gen_machine(rng, opts):
    n = rng.choice([2, 3, 3, 4])
    names = [f"s{i}" for i in range(n)]
    states = {}
    shape = rng.random()
    for i, nm in enumerate(names):
        st = {"entry": [f"en:{nm}"], "exit": [f"ex:{nm}"]}
        on = {}
        for ev in EVENTS[:3]:
            if rng.random() < 0.45:
                t = {"target": rng.choice(names), "actions": [f"t:{nm}:{ev}"]}
                if rng.random() < 0.2:
                    t["guard"] = rng.choice(["g0", "g1"])
                if opts.get("stopin") and rng.random() < 0.3:
                    # a slow action between the exits and the entries (first of its list: the model lets the time of a list
                    # pass before the list's effects)
                    t["actions"] = ["async:sleep:100"] + t["actions"]
                on[ev] = t
        if rng.random() < 0.6:
            on["R"] = {"target": nm, "reenter": True, "actions": [f"t:{nm}:R"]}
        st["on"] = on
        if rng.random() < opts.get("p_after", 0.7):
            st["after"] = _after_block(rng, "m." + nm, names, nm, opts)
        if rng.random() < opts.get("p_invoke", 0.0):
            st["invoke"] = _invoke_block(rng, nm, names, opts)
        if opts.get("slow") and rng.random() < opts.get("p_slow_exit", 0.15):
            st["exit"] = ["async:sleep:100"] + st["exit"]
        if opts.get("slow") and rng.random() < opts.get("p_slow_entry", 0.1):
            # (on the initial state too: `start()` creates the run loop only after the initial entry has settled,
            #  so events arriving while it sleeps inside an entry action just wait in the queue)
            st["entry"] = ["async:sleep:100"] + st["entry"]
        if opts.get("rollback") and rng.random() < 0.25:
            # an action without implementation: the transition that runs it fails and is rolled back
            which = rng.choice(["entry", "exit", "exit"])
            st[which] = st[which] + ["missing:x"]
        states[nm] = st
    # one state becomes compound or parallel sometimes
    if shape < 0.35 and n >= 3:
        nm = names[-1]
        kids = {}
        for c in ("a", "b"):
            key = f"{nm}_{c}"
            k = {"entry": [f"en:{key}"], "exit": [f"ex:{key}"], "on": {}}
            if rng.random() < 0.7:
                k["after"] = _after_block(rng, f"m.{nm}.{c}", names + [f"#m.{nm}.a", f"#m.{nm}.b"], key, opts)
            if rng.random() < opts.get("p_invoke", 0.0):
                k["invoke"] = _invoke_block(rng, key, names, opts)
            if rng.random() < 0.5:
                k["on"]["E2"] = {"target": "b" if c == "a" else "a", "actions": [f"t:{key}:E2"]}
            kids[c] = k
        states[nm]["states"] = kids
        if shape < 0.17:
            states[nm]["type"] = "parallel"
        else:
            states[nm]["initial"] = "a"
    m = {"id": "m", "initial": names[0], "states": states}
    root_on = {}
    if opts.get("slow"):
        root_on["X"] = {"actions": [f"async:sleep:{rng.choice([100, 100, 200] if opts.get('instant') else [100, 150, 250])}", "t:root:X"]}
    if rng.random() < 0.3:
        root_on["E1"] = {"target": "." + rng.choice(names), "actions": ["t:root:E1"]}
    if root_on:
        m["on"] = root_on
    if opts.get("final") and rng.random() < 0.15:
        states["fin"] = {"type": "final", "entry": ["en:fin"]}
        states[names[0]]["on"]["E0"] = {"target": "fin"}
    return m


def gen_par_machine(rng, opts):
    """The same-instant family proper. A PARALLEL root whose regions are independent little machines on the 100 ms grid: at
    one instant a timer of one region expires while a service of another completes, the slow action that kept the run loop
    busy ends, an external input arrives and the service task of a state entered in that very instant has not had its first
    step yet — in every combination the seeds reach. Region states (compound) sometimes own timers / services themselves, so
    that tasks of an ancestor that stays active coincide with those of the children that come and go."""
    nreg = rng.choice([2, 2, 3])
    regions = {}
    slow = opts.get("slow")

    def tasks(st, key, sibs, top):
        if rng.random() < opts.get("p_after", 0.7) * (0.5 if top else 1.0):
            out = {}
            slot = 0
            for k in rng.sample(["100", "D1", "200"], rng.choice([1, 1, 2])):
                t = {"actions": [f"af:{key}:{slot}"]}
                slot += 1
                r = rng.random()
                if r < 0.55:
                    t["target"] = rng.choice(sibs)
                elif r < 0.7 and not top:
                    t["target"] = key.split("_")[-1]
                    t["reenter"] = True
                if rng.random() < 0.15:
                    t["guard"] = rng.choice(["g0", "g1"])
                if slow and rng.random() < 0.1:
                    t["actions"] = ["async:sleep:100"] + t["actions"]
                out[k] = t
            st["after"] = out
        if rng.random() < opts.get("p_invoke", 0.0) * (0.5 if top else 1.0):
            invs = []
            for j in range(rng.choice([1, 1, 2])):
                src = rng.choice(INST_SRC)
                inv = {"id": f"i{key}{j}", "src": src}
                plain = src.startswith("plain")
                od = {"actions": [f"od:{key}:{j}"]}
                if rng.random() < (0.15 if plain else 0.6):
                    od["target"] = rng.choice(sibs)
                inv["onDone"] = od
                if rng.random() < 0.7:
                    oe = {"actions": [f"oe:{key}:{j}"]}
                    if rng.random() < (0.15 if plain else 0.5):
                        oe["target"] = rng.choice(sibs)
                    inv["onError"] = oe
                invs.append(inv)
            st["invoke"] = invs if len(invs) > 1 or rng.random() < 0.3 else invs[0]

    for r in range(nreg):
        rn = "abc"[r]
        names = [f"{rn}{k}" for k in range(rng.choice([2, 2, 3]))]
        states = {}
        for nm in names:
            key = f"{rn}_{nm}"
            st = {"entry": [f"en:{key}"], "exit": [f"ex:{key}"]}
            on = {}
            for ev in EVENTS[:3]:
                if rng.random() < 0.35:
                    on[ev] = {"target": rng.choice(names), "actions": [f"t:{key}:{ev}"]}
                    if opts.get("stopin") and rng.random() < 0.3:
                        on[ev]["actions"] = ["async:sleep:100"] + on[ev]["actions"]
            if rng.random() < 0.3:
                on["R"] = {"target": nm, "reenter": True, "actions": [f"t:{key}:R"]}
            st["on"] = on
            tasks(st, key, names, False)
            if slow and rng.random() < opts.get("p_slow_exit", 0.12):
                st["exit"] = ["async:sleep:100"] + st["exit"]
            if slow and rng.random() < opts.get("p_slow_entry", 0.1):
                st["entry"] = ["async:sleep:100"] + st["entry"]
            states[nm] = st
        reg = {"initial": names[0], "entry": [f"en:{rn}"], "exit": [f"ex:{rn}"], "states": states, "on": {}}
        if rng.random() < 0.35:
            tasks(reg, rn, [f"#m.{rn}.{n}" for n in names], True)
        regions[rn] = reg
    m = {"id": "m", "type": "parallel", "states": regions}
    if slow:
        m["on"] = {"X": {"actions": [f"async:sleep:{rng.choice([100, 100, 200])}", "t:root:X"]}}
    return m


def gen_deep_machine(rng, opts):
    """Random machines whose COMPOSITE states (compound / parallel) own timers and services THEMSELVES and are entered in every
    way the engines distinguish: by their own id (default descent), through a descendant named directly from OUTSIDE — absolute
    (`#m.w.b`) and relative (`w.b`) spellings, two levels deep when a child is compound itself —, through a history child, and
    re-entered from INSIDE through a deep target with / without `reenter`. (A composite state that sits on the explicit entry
    path together with one of its children takes another branch of `_enter_states` than one entered by default descent.)"""
    tops = [f"s{i}" for i in range(rng.choice([2, 2, 3]))]
    comps = ["w"] + (["v"] if rng.random() < 0.35 else [])
    slow = opts.get("slow")
    p_after, p_invoke = opts.get("p_after", 0.7), opts.get("p_invoke", 0.0)
    layout = {}                      # composite -> {"type", "kids": {kid: [grandkids]}, "hist": {path-suffix: kind}}
    for c in comps:
        typ = "parallel" if rng.random() < 0.35 else "compound"
        kids = {}
        for k in ("a", "b"):
            kids[k] = ["x", "y"] if rng.random() < (0.6 if typ == "parallel" else 0.3) else []
        hist = {}
        if typ == "compound" and rng.random() < 0.6:
            hist["h"] = rng.choice(["shallow", "deep"])
        for k, gk in kids.items():
            if gk and rng.random() < 0.4:
                hist[f"{k}.h"] = rng.choice(["shallow", "deep"])
        layout[c] = {"type": typ, "kids": kids, "hist": hist}

    def ways_in(c):
        """every spelling of a target that enters composite `c` from outside"""
        L = layout[c]
        out = [c, c]
        for k, gk in L["kids"].items():
            out += [f"#m.{c}.{k}", f"{c}.{k}"]
            for g in gk:
                out += [f"#m.{c}.{k}.{g}", f"{c}.{k}.{g}"]
        for hp in L["hist"]:
            out += [f"#m.{c}.{hp}", f"{c}.{hp}"]
        return out

    def outside_target(abs_only=False):
        # (relative spellings resolve against the SOURCE state's parent: only sources at the top level use them)
        if rng.random() < 0.6:
            return rng.choice([w for w in ways_in(rng.choice(comps)) if not abs_only or w.startswith("#")])
        return rng.choice(tops + comps)

    def mk_state(key, sid, target_pool, p_a, p_i):
        st = {"entry": [f"en:{key}"], "exit": [f"ex:{key}"], "on": {}}
        if rng.random() < p_a:
            st["after"] = _after_block(rng, sid, target_pool, key, opts)
        if rng.random() < p_i:
            st["invoke"] = _invoke_block(rng, key, target_pool, opts)
        if slow and rng.random() < 0.1:
            st["exit"] = ["async:sleep:100"] + st["exit"]
        if slow and rng.random() < 0.08:
            st["entry"] = ["async:sleep:100"] + st["entry"]
        return st

    states = {}
    for nm in tops:
        pool = [outside_target() for _ in range(4)]
        st = mk_state(nm, "m." + nm, pool, p_after * 0.6, p_invoke * 0.5)
        for ev in EVENTS[:3]:
            if rng.random() < 0.6:
                t = {"target": outside_target(), "actions": [f"t:{nm}:{ev}"]}
                if rng.random() < 0.15:
                    t["guard"] = rng.choice(["g0", "g1"])
                st["on"][ev] = t
        states[nm] = st
    for c in comps:
        L = layout[c]
        # the composite state's OWN tasks: the point of the family
        st = mk_state(c, "m." + c, [outside_target() for _ in range(3)] + tops, max(p_after, 0.85) if p_after else 0.0, max(p_invoke, 0.85) if p_invoke else 0.0)
        inside = [f"#m.{c}.{k}" for k in L["kids"]] + [f"#m.{c}.{k}.{g}" for k, gk in L["kids"].items() for g in gk]
        for ev in EVENTS[:2]:
            if rng.random() < 0.5:
                # handled at the composite state's own level: leave it, or re-enter it through a deep target
                if rng.random() < 0.5:
                    t = {"target": rng.choice(tops), "actions": [f"t:{c}:{ev}"]}
                else:
                    t = {"target": rng.choice(inside), "actions": [f"t:{c}:{ev}"]}
                    if rng.random() < 0.5:
                        t["reenter"] = rng.random() < 0.7
                st["on"][ev] = t
        if rng.random() < 0.5:
            st["on"]["R"] = {"target": c, "reenter": True, "actions": [f"t:{c}:R"]}
        kids = {}
        for k, gk in L["kids"].items():
            key = f"{c}_{k}"
            sibs = [x for x in L["kids"] if x != k] or [k]
            pool = [rng.choice(sibs), f"#m.{c}.{rng.choice(sibs)}", f"#m.{c}", rng.choice(tops)] if L["type"] == "compound" else \
                   [f"#m.{c}", rng.choice(tops), outside_target(True)]
            ks = mk_state(key, f"m.{c}.{k}", pool, p_after * 0.6, p_invoke * 0.5)
            if rng.random() < 0.7:
                t = {"target": rng.choice(pool), "actions": [f"t:{key}:E2"]}
                if t["target"].startswith("#") and rng.random() < 0.5:
                    t["reenter"] = rng.random() < 0.6           # deep target from inside, with / without `reenter`
                ks["on"]["E2"] = t
            if gk:
                gks = {}
                for g in gk:
                    gkey = f"{key}_{g}"
                    other = [x for x in gk if x != g][0]
                    gpool = [other, f"#m.{c}.{k}.{other}", f"#m.{c}.{k}", f"#m.{c}"]
                    gs = mk_state(gkey, f"m.{c}.{k}.{g}", gpool, p_after * 0.4, p_invoke * 0.3)
                    if rng.random() < 0.6:
                        t = {"target": rng.choice(gpool), "actions": [f"t:{gkey}:E0"]}
                        if t["target"].startswith("#") and rng.random() < 0.5:
                            t["reenter"] = rng.random() < 0.6
                        gs["on"]["E0"] = t
                    gks[g] = gs
                if f"{k}.h" in L["hist"]:
                    gks["h"] = {"type": "history", "history": L["hist"][f"{k}.h"]}
                ks["initial"] = gk[0]
                ks["states"] = gks
            kids[k] = ks
        if "h" in L["hist"]:
            kids["h"] = {"type": "history", "history": L["hist"]["h"]}
        st["states"] = kids
        if L["type"] == "parallel":
            st["type"] = "parallel"
        else:
            st["initial"] = "a"
        states[c] = st
    m = {"id": "m", "initial": rng.choice(tops + comps[:1]), "states": states}
    root_on = {}
    if slow:
        root_on["X"] = {"actions": [f"async:sleep:{rng.choice([100, 150, 250])}", "t:root:X"]}
    if rng.random() < 0.4:
        root_on["E1"] = {"target": "." + rng.choice(tops + comps), "actions": ["t:root:E1"]}
    if root_on:
        m["on"] = root_on
    return m


def gen_agenda(rng, opts):
    nops = rng.choice([2, 3, 4, 5, 6])
    res = sorted(rng.sample(range(1, 100), nops))
    if opts.get("ties") and rng.random() < 0.6:
        # exact ties with engine deadlines: residues 0 or a repeated residue
        res = [0 if rng.random() < 0.5 else r for r in res]
        res = sorted(res)
    if opts.get("instant"):
        # most inputs arrive exactly on the 100 ms grid on which everything else happens
        res = sorted(0 if rng.random() < 0.75 else r for r in res)
    agenda = []
    tick = 0
    evs = EVENTS + (["X"] if opts.get("slow") else [])
    for i in range(nops):
        tick += rng.choice([0, 0, 1, 1, 1, 2, 3])
        t = max(1, tick * 100 + res[i])          # (nothing at t = 0: `start()` has not returned yet)
        if agenda and t <= agenda[-1][0]:
            t = agenda[-1][0] + 1
        agenda.append([t, "send", rng.choice(evs)])
    if opts.get("stopin"):
        # `stop()` INSIDE the macrostep in flight: relative to one of the inputs — in its very instant, behind it (the run loop has
        # just been woken / is inside the `await` of `cancel_by_owner`), strictly inside a slow action that input may have started
        # (50 ms), in the instant in which a 100 ms / 200 ms slow action it started ends (external inputs go first at equal
        # times: the interpreter's task is still suspended when stop() sets the status), or right behind that instant; whatever
        # the agenda held for later is dropped (a stopped interpreter refuses it anyway)
        k = rng.randrange(len(agenda))
        t = agenda[k][0] + rng.choice([0, 50, 100, 100, 100, 101, 200, 200])
        agenda = [a for a in agenda if a[0] <= t] + [[t, "stop"]]
    elif opts.get("stop") and rng.random() < 0.5:
        t = agenda[-1][0] + rng.choice([1, 50, 100, 199, 250])
        agenda.append([t, "stop"])
    # the run goes on for TAIL ms after the last input; records are compared up to CUT ms before the end
    horizon = agenda[-1][0] + TAIL
    agenda.append([horizon - CUT, "obs"])
    return agenda, horizon


TAIL, CUT = 2000, 700

PROFILES = {
    "after": {"p_after": 0.8, "named": True, "alts": True},
    "after1": {"p_after": 0.8, "named": True, "alts": False},          # one transition per delay key
    "slow": {"p_after": 0.8, "slow": True, "alts": False},
    "slowalts": {"p_after": 0.8, "slow": True, "alts": True},
    "stop": {"p_after": 0.8, "stop": True, "final": True},
    "ties": {"p_after": 0.8, "ties": True, "alts": False},
    "rollback": {"p_after": 0.9, "rollback": True, "alts": False},
    "svc": {"p_after": 0.4, "p_invoke": 0.7, "plain": True, "alts": False},
    "svcslow": {"p_after": 0.4, "p_invoke": 0.7, "plain": True, "slow": True, "alts": False},
    "svcstop": {"p_after": 0.3, "p_invoke": 0.7, "plain": True, "stop": True, "final": True, "alts": False},
    # the same-instant family: all delays / durations / slow actions are 100 ms (some 200), inputs on the 100 ms grid
    "inst": {"p_after": 0.9, "slow": True, "alts": False, "instant": True},                       # C08: timers only
    "instalts": {"p_after": 0.9, "slow": True, "alts": True, "instant": True},
    "inststop": {"p_after": 0.9, "alts": False, "instant": True, "stop": True, "final": True},
    "isvc": {"p_after": 0.6, "p_invoke": 0.8, "alts": False, "instant": True},                     # C09: + services
    "isvcslow": {"p_after": 0.6, "p_invoke": 0.8, "slow": True, "alts": False, "instant": True},
    "isvcstop": {"p_after": 0.5, "p_invoke": 0.8, "alts": False, "instant": True, "stop": True, "final": True},
    # `stop()` INSIDE the macrostep in flight (`stopin`: see `gen_agenda`): slow exit / transition / entry actions are frequent,
    # the stop lands inside one of them, in the instant in which it ends, or in the instant of an input
    "slowstop": {"p_after": 0.8, "slow": True, "alts": False, "stopin": True, "p_slow_exit": 0.35, "p_slow_entry": 0.3},          # C08
    "inststop2": {"p_after": 0.9, "slow": True, "alts": False, "instant": True, "stopin": True, "p_slow_exit": 0.35, "p_slow_entry": 0.3},
    "partstop2": {"p_after": 0.9, "slow": True, "instant": True, "par": True, "stopin": True, "p_slow_exit": 0.3, "p_slow_entry": 0.25},
    "svcslowstop": {"p_after": 0.4, "p_invoke": 0.7, "plain": True, "slow": True, "alts": False, "stopin": True, "p_slow_exit": 0.35, "p_slow_entry": 0.3},   # C09
    "isvcstop2": {"p_after": 0.6, "p_invoke": 0.8, "slow": True, "alts": False, "instant": True, "stopin": True, "p_slow_exit": 0.35, "p_slow_entry": 0.3},
    "parstop2": {"p_after": 0.6, "p_invoke": 0.8, "slow": True, "instant": True, "par": True, "stopin": True, "p_slow_exit": 0.3, "p_slow_entry": 0.25},
    # composite states with their OWN timers / services, entered in every way (`gen_deep_machine`)
    "deep": {"p_after": 0.8, "alts": False, "deep": True},
    "deepslow": {"p_after": 0.8, "alts": False, "deep": True, "slow": True},
    "svcdeep": {"p_after": 0.4, "p_invoke": 0.7, "plain": True, "alts": False, "deep": True},
    "svcdeepslow": {"p_after": 0.4, "p_invoke": 0.7, "plain": True, "alts": False, "deep": True, "slow": True},
    # ... on parallel regions (`gen_par_machine`): independent tasks that coincide
    "part": {"p_after": 0.9, "instant": True, "par": True},                                        # C08: timers only
    "partslow": {"p_after": 0.9, "slow": True, "instant": True, "par": True},
    "partstop": {"p_after": 0.9, "instant": True, "par": True, "stop": True},
    "par": {"p_after": 0.6, "p_invoke": 0.8, "instant": True, "par": True},                        # C09: + services
    "parslow": {"p_after": 0.6, "p_invoke": 0.8, "slow": True, "instant": True, "par": True},
    "parstop": {"p_after": 0.6, "p_invoke": 0.8, "instant": True, "par": True, "stop": True},
}


def _syncify(m):
    """the sync engine refuses coroutines: slow actions block (`sleep:<ms>`), services are plain callables"""
    txt = json.dumps(m).replace('"async:sleep:', '"sleep:')
    for a, b in (("svcOk", "plainOk"), ("svcFast", "plainOk"), ("svcLong", "plainOk"), ("svcBadFast", "plainBad"), ("svcBad", "plainBad")):
        txt = txt.replace(f'"src": "{a}"', f'"src": "{b}"')
    return json.loads(txt)


def gen_case(seed, profile, i, flavor="async"):
    rng = random.Random(f"c08/{seed}/{profile}/{i}")
    opts = dict(PROFILES[profile])
    if flavor == "sync":
        opts["all_plain"] = True        # every service of the sync engine is instantaneous
    m = gen_par_machine(rng, opts) if opts.get("par") else gen_deep_machine(rng, opts) if opts.get("deep") else gen_machine(rng, opts)
    if flavor == "sync":
        m = _syncify(m)
        if opts.get("p_invoke"):
            m["maxIterations"] = 50     # zero-time handler loops are cut by the engine's own bound: keep them short
    agenda, horizon = gen_agenda(rng, opts)
    guards = {g: rng.choice(["t", "t", "f", "r"]) for g in ("g0", "g1", "g2")}
    return {"id": f"{profile}-{seed}-{i}", "machine": m, "guards": guards,
            "logic": {"delays": dict(DELAYS), "services": copy.deepcopy(INST_SERVICES if opts.get("instant") else SERVICES)},
            "agenda": agenda, "horizon": horizon, "profile": profile}


# ------------------------------------------------------------------------------------------- static view of a case
def _norm_list(x):
    if x is None:
        return []
    return x if isinstance(x, list) else [x]


def static_info(case):
    """per state id: marker key, resolved `after` table, invokes — read from the machine JSON only"""
    delays = case.get("logic", {}).get("delays", {})
    info = {}

    def walk(cfg, sid, key):
        after = []
        for k, v in (cfg.get("after") or {}).items():
            try:
                d = int(k)
            except ValueError:
                d = delays.get(k)
            after.append({"key": k, "delay": d, "type": f"after.{k}.{sid}", "alts": _norm_list(v)})
        invs = []
        for j, inv in enumerate(_norm_list(cfg.get("invoke"))):
            invs.append({"id": inv.get("id", sid), "src": inv.get("src"), "has_on_error": bool(inv.get("onError")),
                         "has_on_done": bool(inv.get("onDone")), "input": inv.get("input")})
        info[sid] = {"key": key, "after": after, "invoke": invs, "entry": cfg.get("entry", []), "exit": cfg.get("exit", [])}
        for ck, cc in (cfg.get("states") or {}).items():
            walk(cc, sid + "." + ck, (key + "_" + ck) if key else ck)
    m = case["machine"]
    walk(m, m["id"], "")
    return info


def has_slow(case):
    return "sleep:" in json.dumps(case["machine"])


class Timeline:
    """activations of every state, from the en:/ex: marker actions the generator puts on every state.
    A transition that fails is rolled back by the engines (no `#t:` record follows its markers): its
    markers are undone — an exited state stays in its activation (which is flagged `rollbacks`), an
    entered one never had that activation."""

    def __init__(self, case, log, in_flight=False, stop_in_flight=False):
        # `stop_in_flight`: the `stop` record lies INSIDE a macrostep (stop() was called while the interpreter's own task /
        # thread was suspended in it). That macrostep is not over at that record: it goes on (and ends with its `#t:`) or is cut
        # short there (async: the run loop is cancelled at its suspension point) — unfinished, not undone: what it has exited
        # so far is exited, what it has entered is active. (A `stop` BETWEEN macrosteps still closes a failed transition.)
        self.info = static_info(case)
        self.key2sid = {v["key"]: sid for sid, v in self.info.items() if v["key"]}
        self.log = log
        self.acts = collections.defaultdict(list)      # sid -> [{"ep","et","xp","xt","rollbacks":[t..]}]
        self.rollbacks = []
        self.orphan_arms = []                           # timers armed by an entry that was rolled back: (type, due, owner)
        pending = []                                    # effects of the transition in progress
        arms = []

        def settle(commit, t):
            if not commit and pending:
                self.rollbacks.append(t)
                undone = {sid for kind, sid, a in pending if kind == "en"}
                for (ta, owner, lst) in arms:
                    if owner in undone:
                        for item in lst.split(","):
                            typ, d = item.rsplit("/", 1)
                            self.orphan_arms.append((typ, ta + int(d), owner))
                for kind, sid, a in reversed(pending):
                    if kind == "en":
                        self.acts[sid].remove(a)
                    else:
                        a["xp"], a["xt"] = None, None
                        a["rollbacks"].append(t)
            pending.clear()
            arms.clear()
        last_t = 0
        cut = False
        for pos, (t, r) in enumerate(log):
            if r.startswith("#t:"):
                settle(True, t)
            elif r == "stop" and stop_in_flight:
                cut = True
            elif r.startswith("#recv:") or r == "stop":
                settle(False, last_t)
            elif r.startswith("arm:"):
                _a, owner, lst = r.split(":", 2)
                arms.append((t, owner, lst))
            elif (r.startswith("en:") or r.startswith("ex:")) and "@" in r:
                name, ev = r[3:].split("@", 1)
                sid = self.key2sid.get(name)
                if sid is None:
                    continue
                if r.startswith("en:"):
                    a = {"ep": pos, "et": t, "xp": None, "xt": None, "rollbacks": []}
                    self.acts[sid].append(a)
                    if canon_ev(ev) != "<init>":
                        pending.append(("en", sid, a))
                else:
                    if self.acts[sid] and self.acts[sid][-1]["xp"] is None:
                        a = self.acts[sid][-1]
                        a["xp"], a["xt"] = pos, t
                        pending.append(("ex", sid, a))
            if not r.startswith(("send:", "obs:", "svc-")):
                last_t = t
        # the log ends with a transition that has no `#t`: it failed and was rolled back — unless the run simply ended
        # while the interpreter was suspended INSIDE that macrostep (`in_flight`: a slow action): then it is unfinished,
        # not undone, and what it has entered so far is active
        settle(bool(in_flight) or cut, last_t)

    def activation_at(self, sid, pos):
        """index of the activation of `sid` that is current at log position `pos` (None: not active)"""
        for k, a in enumerate(self.acts.get(sid, [])):
            if a["ep"] <= pos and (a["xp"] is None or pos < a["xp"]):
                return k
        return None


def _queued_during_exit_set(tl, log, sid, act, sp):
    """was the expiry at log position `sp` queued while the transition that ENDED activation `act` of `sid` was already
    running its exit set (behind the first `ex:` record of that transition, before `sid`'s own)? The sync engine cancels
    the tasks of the whole exit set before the first exit action runs, so there this cannot happen"""
    if sp is None or act is None:
        return False
    xp = tl.acts[sid][act]["xp"]
    if xp is None or not sp < xp:
        return False
    p0 = next((p for p in range(xp, -1, -1) if log[p][1].startswith(("#t:", "#recv:"))), -1)
    first_ex = next((p for p in range(p0 + 1, xp + 1) if log[p][1].startswith("ex:")), xp)
    return first_ex < sp


def _dead(case, log, info=None):
    """(position, time) from which the interpreter is known not to be running any more: an unhandled service
    failure (`_fail`), `stop()`, or a `send` that reports another status. (None, None): it ran to the end.
    The position behind an unhandled failure is the one BEHIND the send of its error event; the time is that of the
    failure itself (`_fail` runs right behind that send, in the same instant) — not the time of the record at that
    position, which is simply the next record and may be much later: since the run loop re-checks the status behind
    `queue.get()` a failed interpreter records nothing of its own any more, in particular no `#recv` of an event
    that was queued in the instant of the failure."""
    info = info or static_info(case)
    unhandled = {iv["id"] for inf in info.values() for iv in inf["invoke"] if not iv["has_on_error"]}
    for p, (t, r) in enumerate(log):
        if r == "stop":
            return p, t
        if r.startswith("send:") and not r.endswith(":running"):
            return p, t
        if r.startswith("svc-end:") and r.endswith(":raise") and r[len("svc-end:"):-len(":raise")] in unhandled:
            if p + 1 < len(log) and log[p + 1][1].endswith(":running"):
                return p + 2, log[p + 1][0]
    return None, None


def dead_pos(case, log, info=None):
    """first log position from which the interpreter is known not to be running any more (see `_dead`)"""
    return _dead(case, log, info)[0]


def dead_time(case, log, info=None):
    """the virtual time from which the interpreter is known not to be running any more (see `_dead`)"""
    return _dead(case, log, info)[1]


def _pair_sends(log, typ):
    """k-th accepted `send:typ:running` <-> k-th `#recv:typ` (the queue is FIFO)"""
    sends = [p for p, (t, r) in enumerate(log) if r == f"send:{typ}:running"]
    recvs = [p for p, (t, r) in enumerate(log) if r == f"#recv:{typ}"]
    return sends, recvs


# ------------------------------------------------------------------------------------------- monitors (real code only)
def monitor_c08(case, out):
    """problems of one implementation run w.r.t. C08; each has kind / detail and the facts a classifier needs"""
    log = out["log"]
    tl = Timeline(case, log, out.get("in_flight"), out.get("stop_in_flight"))
    gv = case.get("guards", {})
    probs = []
    slow = has_slow(case)
    stop_pos = next((p for p, (t, r) in enumerate(log) if r == "stop"), None)
    by_type = {}
    for sid, inf in tl.info.items():
        for a in inf["after"]:
            by_type[a["type"]] = (sid, a)
    # (i) delays are resolved at entry: every armed timer carries the resolved delay of its key
    for pos, (t, r) in enumerate(log):
        if r.startswith("arm:"):
            _a, sid, lst = r.split(":", 2)
            for item in lst.split(","):
                typ, d = item.rsplit("/", 1)
                ent = by_type.get(typ)
                if ent is None or ent[1]["delay"] is None or int(d) != ent[1]["delay"] or ent[0] != sid:
                    probs.append({"kind": "delay-not-resolved-at-entry", "detail": f"{r} at t={t}"})
    # (a,b,c) every delivery of an after event
    fired = {}
    for typ, (sid, a) in by_type.items():
        sends, recvs = _pair_sends(log, typ)
        for k, rp in enumerate(recvs):
            t_recv = log[rp][0]
            # the records produced while this event was processed: up to the next #recv
            end = next((p for p in range(rp + 1, len(log)) if log[p][1].startswith("#recv:")), len(log))
            marks = [(p, log[p][1]) for p in range(rp + 1, end) if log[p][1].startswith("af:") and log[p][1].endswith("@" + typ)]
            act_recv = tl.activation_at(sid, rp)
            sp = sends[k] if k < len(sends) else None
            act_send = tl.activation_at(sid, sp) if sp is not None else None
            for (p, mk) in marks:
                key, slot = mk[3:].split("@")[0].rsplit(":", 1)
                owner = tl.key2sid.get(key)
                base = {"event": typ, "owner": owner, "t": t_recv, "queued_in_activation": act_send, "received_in_activation": act_recv,
                        "queued_at": log[sp][0] if sp is not None else None, "slow_actions": slow,
                        "queued_during_exit_set": _queued_during_exit_set(tl, log, sid, act_send, sp)}
                if owner != sid:
                    probs.append({"kind": "after-wrong-owner", "detail": f"{mk} for event of {sid}", **base})
                    continue
                if stop_pos is not None and p > stop_pos:
                    # (facts for the classifier: was the expiry TAKEN UP before stop() was called, inside a macrostep in flight?)
                    probs.append({"kind": "after-fired-after-stop", "detail": f"{mk} at t={t_recv}", **base,
                                  "received_before_stop": rp < stop_pos, "stop_in_flight": bool(out.get("stop_in_flight"))})
                if act_recv is None:
                    probs.append({"kind": "after-fired-while-inactive", "detail": f"{mk} at t={t_recv}: {sid} not active", **base})
                    continue
                t0 = tl.acts[sid][act_recv]["et"]
                base["rollbacks_in_activation"] = len(tl.acts[sid][act_recv]["rollbacks"])
                base["rollbacks_before"] = len([x for x in tl.rollbacks if x <= t_recv])
                base["orphan_timer"] = any(o[0] == typ and o[1] == base["queued_at"] for o in tl.orphan_arms)
                if t_recv - t0 < a["delay"]:
                    probs.append({"kind": "after-fired-early", "entered_at": t0, "delay": a["delay"],
                                  "detail": f"{mk} at t={t_recv}, but {sid} was (re-)entered at t={t0} and the delay is {a['delay']}", **base})
                fk = (sid, a["key"], slot, act_recv)
                fired.setdefault(fk, []).append({"t": t_recv, "queued_in_activation": act_send, "queued_at": base["queued_at"]})
                if len(fired[fk]) == 2:
                    probs.append({"kind": "after-fired-twice", "alternatives": len(a["alts"]), "firings": list(fired[fk]),
                                  "detail": f"{mk} ran twice in activation #{act_recv} of {sid} (entered t={t0})", **base})
                # guard of the transition that ran
                tr = next((x for x in a["alts"] if f"af:{key}:{slot}" in [y for y in _norm_list(x.get('actions'))]), None)
                if tr is not None and isinstance(tr.get("guard"), str) and gv.get(tr["guard"]) != "t":
                    probs.append({"kind": "after-guard-not-passing", "detail": f"{mk} guard {tr['guard']}={gv.get(tr['guard'])}", **base})
    # (d) no event is taken up after stop() was called (the macrostep in flight may finish: stop() cancels the
    #     run loop only after it has awaited the cancellation of the tasks)
    if stop_pos is not None:
        for p in range(stop_pos + 1, len(log)):
            r = log[p][1]
            if r.startswith("#recv:"):
                probs.append({"kind": "activity-after-stop", "detail": f"{r} at t={log[p][0]} after stop()"})
                break
    # (e) punctual when idle (only meaningful when no action takes time)
    if not slow and out.get("S") in ("running", "stopped") and not out.get("start_error"):
        end_t = case["horizon"] - CUT
        # from the first stop() / unhandled failure / refused send on, the interpreter is not running: no expiry is due
        dead_t = dead_time(case, log, tl.info)
        for sid, acts in tl.acts.items():
            for k, A in enumerate(acts):
                ep, et, xp, xt = A["ep"], A["et"], A["xp"], A["xt"]
                if A["rollbacks"]:
                    continue            # re-armed by a rollback: "the delay" is no longer well defined
                for a in tl.info[sid]["after"]:
                    if a["delay"] is None:
                        continue
                    due = et + a["delay"]
                    if due > end_t or (xt is not None and xt <= due) or (dead_t is not None and dead_t <= due):
                        continue
                    # the interpreter must still be running at that time: look at the status in send records
                    got = [p for p, (t, r) in enumerate(log) if r == "#recv:" + a["type"] and t == due and tl.activation_at(sid, p) == k]
                    if not got:
                        st_then = [r for (t, r) in log if t <= due and r.startswith("send:")]
                        if any(r.endswith(":done") or r.endswith(":error") or r.endswith(":stopped") for r in st_then):
                            continue
                        sent = [r for (t, r) in log if t == due and r.startswith("send:" + a["type"])]
                        if sent and not sent[0].endswith(":running"):
                            continue
                        probs.append({"kind": "after-not-punctual", "detail": f"{a['type']}: activation #{k} of {sid} entered t={et}, still active at t={due}, no expiry processed then",
                                      "owner": sid, "t": due})
    # (j) census: no task outlives its owner / stop
    for (t, owners) in out.get("census", []):
        if owners:
            probs.append({"kind": "task-outlives-owner", "detail": f"t={t}: live tasks owned by inactive state(s) {owners}", "owners": owners, "t": t,
                          "orphan_owners": sorted({o[2] for o in tl.orphan_arms})})
    if out.get("alive_after_stop"):
        probs.append({"kind": "task-alive-after-stop", "detail": f"{out['alive_after_stop']} task(s) alive after stop()", **_stop_facts(out)})
    return probs


def _stop_facts(out):
    """facts about an agenda `stop` for the classifiers: did it land inside a macrostep in flight, what was armed / invoked
    on the stopped interpreter (`late`), how many tasks were alive after it that were NOT created on the stopped interpreter"""
    late = out.get("late") or []
    return {"stop_in_flight": bool(out.get("stop_in_flight")), "created_on_stopped_interpreter": late,
            "alive_not_created_on_stopped_interpreter": max(0, int(out.get("alive_after_stop") or 0) - len(late))}


def monitor_c09(case, out):
    log = out["log"]
    tl = Timeline(case, log, out.get("in_flight"), out.get("stop_in_flight"))
    probs = []
    inv_owner = {}
    for sid, inf in tl.info.items():
        for j, iv in enumerate(inf["invoke"]):
            inv_owner[iv["id"]] = (sid, j, iv)
    stop_pos = next((p for p, (t, r) in enumerate(log) if r == "stop"), None)
    # the macrostep that was IN FLIGHT when stop() was called: position / time of its `#recv` (None: stop() came between
    # macrosteps, or during start()). The async engine cancels the run loop at its next suspension point, so that macrostep may
    # be CUT SHORT: it may have begun to exit states without a trace (`cancel_by_owner` precedes the exit actions, a slow exit
    # action delays the `ex:` marker) and the handler actions of the event it was processing may never run.
    cut_recv = None
    if stop_pos is not None and out.get("stop_in_flight"):
        cut_recv = next((p for p in range(stop_pos, -1, -1) if log[p][1].startswith("#recv:")), None)
    dead = dead_pos(case, log, tl.info)
    starts = collections.defaultdict(list)
    for pos, (t, r) in enumerate(log):
        if r.startswith("svc-start:"):
            starts[r[len("svc-start:"):]].append(pos)
    for iid, (sid, j, iv) in inv_owner.items():
        per_act = collections.Counter()
        for pos in starts.get(iid, []):
            k = tl.activation_at(sid, pos)
            if k is None:
                probs.append({"kind": "service-started-while-inactive", "detail": f"{iid} started at t={log[pos][0]} but {sid} is not active", "id": iid})
                continue
            per_act[k] += 1
            if per_act[k] == 2:
                probs.append({"kind": "service-started-twice", "detail": f"{iid}: two starts in activation #{k} of {sid}", "id": iid})
            if stop_pos is not None and pos > stop_pos:
                probs.append({"kind": "service-started-after-stop", "detail": f"{iid} at t={log[pos][0]}", "id": iid, "owner": sid, **_stop_facts(out)})
        # exactly one start for an activation that outlives the instant of its entry (the async engine
        # starts the service task at the next suspension point of the run loop)
        for k, A in enumerate(tl.acts.get(sid, [])):
            ep, et, xp, xt = A["ep"], A["et"], A["xp"], A["xt"]
            # when the exit BEGAN: the receipt of the event whose processing ran the exit action
            xbegin = None
            if xp is not None:
                rp = next((p for p in range(xp, -1, -1) if log[p][1].startswith("#recv:")), None)
                xbegin = log[rp][0] if rp is not None else xt
            lived = (xp is None or xbegin > et) and (stop_pos is None or log[stop_pos][0] > et) and et < case["horizon"] - CUT
            # REFINED for a stop() inside a macrostep (C09: "... and stop()"; C14: "at every point of a run including
            # mid-macrostep"): the macrostep that was cut short counts as the begin of the exit of every state it had not yet
            # visibly left — an activation entered in the very instant in which that macrostep began did not outlive that instant
            if xp is None and cut_recv is not None and log[cut_recv][0] <= et and ep < cut_recv:
                lived = False
            sync_flavor = out.get("flavor") == "sync"
            if (lived or sync_flavor) and per_act[k] == 0 and case["logic"]["services"].get(iv["src"]) is not None:
                if out.get("S") == "HANG" or any(r.startswith("#aerr") for _t, r in log):
                    continue
                if out.get("in_flight") and ep > max([p for p, (_t, r) in enumerate(log) if r.startswith("#recv:")] or [-1]):
                    continue            # entered by the macrostep that was still in flight when the run ended: its schedule step had not come yet
                if stop_pos is not None and out.get("stop_in_flight") and ep > (cut_recv if cut_recv is not None else -1):
                    # REFINED for a stop() inside a macrostep: entered by the macrostep (or the start()) that was in flight when stop()
                    # was called. Its schedule step had not come when the stop landed (sync: a composite state's tasks are scheduled
                    # behind its nested descent) — and on a stopped interpreter it must not come: a service that did start there is
                    # `service-started-after-stop`
                    continue
                probs.append({"kind": "service-not-started", "detail": f"{iid}: activation #{k} of {sid} (t={et}) never started its service", "id": iid})
        # completions. Every service call has a serial number that travels with its result (`svc_ends`: where the
        # call ended; `datalog`: which serial each handler run saw, in the order of the handler markers).
        key = tl.info[sid]["key"]
        marks = {"od": [p for p, (t, r) in enumerate(log) if r.startswith(f"od:{key}:{j}@")],
                 "oe": [p for p, (t, r) in enumerate(log) if r.startswith(f"oe:{key}:{j}@")]}
        seen = {"od": [d for d in out.get("datalog", []) if d[0] == f"od:{key}:{j}"],
                "oe": [d for d in out.get("datalog", []) if d[0] == f"oe:{key}:{j}"]}
        runs = collections.defaultdict(list)          # serial -> [(handler kind, marker position)]
        for hk in ("od", "oe"):
            for p, d in zip(marks[hk], seen[hk]):
                runs[d[2][2]].append((hk, p))
        for (eid, n, endpos) in out.get("svc_ends", []):
            if eid != iid or endpos < 0 or endpos >= len(log):
                continue
            ok = log[endpos][1].endswith(":ok")
            typ = ("done.invoke." if ok else "error.platform.") + iid
            if endpos + 1 >= len(log) or log[endpos + 1][1] != f"send:{typ}:running":
                if endpos + 1 < len(log) and log[endpos + 1][1].startswith(f"send:{typ}:"):
                    continue                               # refused: the interpreter no longer runs
                probs.append({"kind": "completion-count", "detail": f"{iid} call #{n} ended at t={log[endpos][0]} without sending {typ}", "id": iid})
                continue
            act_end = tl.activation_at(sid, endpos)
            rp = next((p for p in range(endpos + 1, len(log)) if log[p][1] == "#recv:" + typ), None)
            hk = "od" if ok else "oe"
            mine = [p for (k2, p) in runs.get(n, [])]
            declared = iv["has_on_done"] if ok else iv["has_on_error"]
            # the activation that produced the result is still the current one when the next completion event of
            # that type is taken up  <=>  the result is to be handled (once); otherwise it is stale
            current = rp is not None and act_end is not None and tl.activation_at(sid, rp) == act_end
            if rp is not None and log[rp][0] > case["horizon"] - CUT:
                continue
            # (only decidable from the log when no OTHER completion of that type is still queued: the next receipt
            #  of that type is then certainly this one)
            sends_before = sum(1 for p in range(endpos) if log[p][1] == f"send:{typ}:running")
            recvs_before = sum(1 for p in range(endpos) if log[p][1] == "#recv:" + typ)
            alone = sends_before <= recvs_before
            if current:
                # REFINED for a stop() inside a macrostep: a completion event whose macrostep was IN FLIGHT when stop() was called
                # (it was cut short, or — with the repair — runs no further action) is not a completion that was "not handled": the
                # interpreter was stopped while handling it ("exactly one completion event is processed" is about an interpreter
                # that keeps running; C14 lets stop() land mid-macrostep)
                if rp is not None and rp == cut_recv and len(mine) == 0:
                    continue
                if declared and (len(mine) > 1 or (len(mine) == 0 and alone)) and rp is not None:
                    # (with several results of one activation queued at once only the first is "next")
                    probs.append({"kind": "completion-not-handled-once", "id": iid,
                                  "detail": f"{typ} of call #{n} (ended t={log[endpos][0]}) was received in the activation that produced it: handler ran {len(mine)} times"})
            elif mine:
                p0 = mine[0]
                rcv = next((p for p in range(p0, -1, -1) if log[p][1].startswith("#recv:")), p0)
                probs.append({"kind": "stale-result-handled", "id": iid, "event": typ, "t": log[p0][0],
                              "produced_in_activation": act_end, "received_in_activation": tl.activation_at(sid, rcv),
                              "detail": f"{typ} produced by call #{n} in activation #{act_end} of {sid} was handled at t={log[p0][0]} in activation #{tl.activation_at(sid, rcv)}"})
        # unhandled failure => error status, exception recorded
        if not iv["has_on_error"]:
            for p, (t, r) in enumerate(log):
                if r == "svc-end:" + iid + ":raise":
                    sent = log[p + 1][1] if p + 1 < len(log) else ""
                    if sent.endswith(":running"):
                        later_stop = stop_pos is not None
                        if out.get("S") not in ("error",) and not later_stop:
                            probs.append({"kind": "unhandled-error-not-fatal", "detail": f"{iid} raised at t={t} with no onError; final status {out.get('S')}", "id": iid})
                        elif out.get("error") != "SvcRaises":
                            probs.append({"kind": "unhandled-error-not-recorded", "detail": f"{iid} raised at t={t}; interpreter.error={out.get('error')!r}", "id": iid})
                    break
    # once an unhandled failure has put the interpreter into the error status, no user action runs any more (the
    # macrostep in flight may finish) and NO event is taken up any more: the run loop re-checks the status behind
    # `queue.get()`, so an event that was already queued when the interpreter failed is not even received
    if dead is not None and stop_pos is None or (dead is not None and stop_pos is not None and dead < stop_pos):
        for p in range(dead, len(log)):
            r = log[p][1]
            if "@" in r and not r.startswith(("#", "send:")):
                rcv = next((q for q in range(p, -1, -1) if log[q][1].startswith("#recv:")), None)
                if rcv is not None and rcv >= dead:
                    probs.append({"kind": "action-after-failure", "detail": f"{r} at t={log[p][0]} ran although the interpreter had failed / finished at record #{dead}"})
                    break
        for p in range(dead, len(log)):
            if log[p][1].startswith("#recv:"):
                probs.append({"kind": "event-after-failure", "detail": f"{log[p][1]} at t={log[p][0]}: an event was taken up although the interpreter had failed / finished at record #{dead}"})
                break
    # data carried by completion events, declared input
    for (name, typ, data) in out.get("datalog", []):
        iid = typ.split(".", 2)[2]
        want = ("ok", iid) if typ.startswith("done.") else ("raise", iid)
        if list(data[:2]) != list(want):
            probs.append({"kind": "completion-data", "detail": f"{name} saw {data} for {typ}", "id": iid})
    for (iid, got) in out.get("inputs", []):
        want = inv_owner.get(iid, (None, None, {}))[2].get("input") or {}
        if got != want:
            probs.append({"kind": "service-input", "detail": f"{iid} got input {got}, declared {want}", "id": iid})
    for (t, owners) in out.get("census", []):
        if owners:
            probs.append({"kind": "task-outlives-owner", "detail": f"t={t}: live tasks owned by inactive state(s) {owners}", "owners": owners, "t": t})
    if out.get("alive_after_stop"):
        probs.append({"kind": "task-alive-after-stop", "detail": f"{out['alive_after_stop']} task(s) alive after stop()", **_stop_facts(out)})
    return probs


# ------------------------------------------------------------------------------------------- known-finding classifiers
def cls_stale_after(prob, case, flavor):
    """F6: an AfterEvent queued during one activation of its state is matched by a LATER activation"""
    if flavor == "sync" and prob.get("queued_during_exit_set"):
        # not F6: the sync engine cancels the timers of every state a transition exits BEFORE the first exit action runs;
        # an expiry queued while the exit set was already running means that order was lost
        return False
    if prob.get("kind") == "after-fired-early":
        return prob.get("queued_in_activation") != prob.get("received_in_activation") and not prob.get("orphan_timer")
    if prob.get("kind") == "after-fired-twice":
        k = prob.get("received_in_activation")
        return any(f.get("queued_in_activation") != k for f in prob.get("firings", []))
    return False


def cls_after_alternatives(prob, case, flavor):
    """F55: one timer per listed alternative of one delay: the winner runs once per alternative"""
    if prob.get("kind") != "after-fired-twice" or prob.get("alternatives", 1) < 2 or prob.get("rollbacks_in_activation"):
        return False
    k = prob.get("received_in_activation")
    fs = prob.get("firings", [])
    return all(f.get("queued_in_activation") == k for f in fs) and len({f.get("queued_at") for f in fs}) == 1


def cls_rollback_tasks(prob, case, flavor):
    """F56: a rolled-back transition leaves the tasks of the states it had entered armed, and re-arms
    states whose tasks it had not cancelled"""
    if prob.get("kind") == "after-fired-early":
        return bool(prob.get("orphan_timer"))
    if prob.get("kind") == "after-fired-twice":
        k = prob.get("received_in_activation")
        return prob.get("rollbacks_in_activation", 0) > 0 and all(f.get("queued_in_activation") == k for f in prob.get("firings", []))
    if prob.get("kind") == "task-outlives-owner":
        return bool(prob.get("owners")) and set(prob["owners"]) <= set(prob.get("orphan_owners", []))
    return False


def cls_stale_done(prob, case, flavor):
    """F7: a DoneEvent produced by one activation is handled by a later activation of the same state"""
    return prob.get("kind") == "stale-result-handled" and prob.get("produced_in_activation") != prob.get("received_in_activation")


def cls_stop_inside_macrostep(prob, case, flavor):
    """F73 / F74: stop() was called while a macrostep was in flight (the interpreter's own task / thread suspended in a slow action
    or in the `await` of `cancel_by_owner`, or start() still inside the initial entry); the REST of that macrostep ran on the
    stopped interpreter: its actions, its entries, and `_schedule_state_tasks` armed timers / started services that nothing cancels.
    Only problems that this explains: the stop was in flight AND
      * task-alive-after-stop: every task alive after stop() was created on the stopped interpreter;
      * service-started-after-stop: the service belongs to a `_schedule_state_tasks` call made on the stopped interpreter;
      * after-fired-after-stop: the expiry had been taken up BEFORE stop() — the marker is an action of the macrostep in flight."""
    if not prob.get("stop_in_flight"):
        return False
    k = prob.get("kind")
    late = prob.get("created_on_stopped_interpreter") or []
    if k == "task-alive-after-stop":
        return bool(late) and prob.get("alive_not_created_on_stopped_interpreter") == 0
    if k == "service-started-after-stop":
        return any(x[0] == "service" and x[2] == prob.get("id") and x[1] == prob.get("owner") for x in late)
    if k == "after-fired-after-stop":
        return prob.get("received_before_stop") is True
    return False


CLASSIFIERS = {
    "stop-inside-macrostep-rest-runs": cls_stop_inside_macrostep,
    "stale-queued-after-event": cls_stale_after,
    "after-alternatives-fire-once-each": cls_after_alternatives,
    "rollback-leaves-or-duplicates-tasks": cls_rollback_tasks,
    "stale-queued-done-event": cls_stale_done,
}


# ------------------------------------------------------------------------------------------- pooled execution
def _worker(args):
    flavor, case, timeout = args
    try:
        return run_guarded(flavor, case, timeout)
    except BaseException as e:
        return ("crash", f"HARNESS:{type(e).__name__}: {e}"[:300])


def _chunk_child(conn, flavor, cases, timeout):
    """runs the cases one after the other and reports each result as soon as it is known; after a hang the
    process gives up (a thread of the sync shim that does not come back cannot be killed), the parent
    re-runs what is left in a fresh process"""
    try:
        for k, c in enumerate(cases):
            r = _worker((flavor, c, timeout))
            conn.send((k, r))
            if r[0] == "hang":
                break
    except BaseException:  # pragma: no cover
        pass
    finally:
        try:
            conn.close()
        finally:
            os._exit(0)


def _run_chunk(ctx, flavor, cases, timeout, res, base):
    """fill res[base + k] for the cases of one chunk, restarting the child after a hang / a silent death"""
    todo = list(range(len(cases)))
    while todo:
        a, b = ctx.Pipe(duplex=False)
        pr = ctx.Process(target=_chunk_child, args=(b, flavor, [cases[k] for k in todo], timeout), daemon=True)
        pr.start()
        b.close()
        got = 0
        while got < len(todo):
            if not a.poll(timeout * 2 + 15):
                res[base + todo[got]] = ("hang", None)
                got += 1
                break
            try:
                k, r = a.recv()
            except EOFError:
                break
            res[base + todo[k]] = r
            got = k + 1
            if r[0] == "hang":
                break
        if pr.is_alive():
            pr.kill()
        pr.join(2)
        if got == 0:                       # the child died before answering anything: do not loop forever
            res[base + todo[0]] = ("crash", "HARNESS: worker died")
            got = 1
        todo = todo[got:]


def run_impl_many(flavor, cases, timeout=8, nproc=None):
    """every case on the real engine. Each run is under the SIGALRM watchdog of `run_guarded`; the runs of a
    chunk share one forked child process, which is replaced when a run hangs or the process stops answering"""
    import multiprocessing as mp
    import threading
    ctx = mp.get_context("fork")
    if not cases:
        return []
    nproc = nproc or max(1, min(6, (os.cpu_count() or 2) - 1))
    size = max(1, (len(cases) + nproc - 1) // nproc)
    res = [None] * len(cases)
    ths = []
    for i in range(0, len(cases), size):
        th = threading.Thread(target=_run_chunk, args=(ctx, flavor, cases[i:i + size], timeout, res, i), daemon=True)
        th.start()
        ths.append(th)
    for th in ths:
        th.join()
    return [r if r is not None else ("hang", None) for r in res]


def _open_findings(prop):
    p = os.path.join(os.path.dirname(modelio.LEAN_DIR), "known_findings.json")
    try:
        kf = json.load(open(p))
    except Exception:
        return []
    return [f for f in kf.get("open", []) if f.get("property") == prop and f.get("classifier") in CLASSIFIERS]


def explained_by(prob, case, flavor, open_f):
    for f in open_f:
        if f.get("flavor") not in (None, "any", flavor):
            continue
        try:
            if CLASSIFIERS[f["classifier"]](prob, case, flavor):
                return f["id"]
        except Exception:
            pass
    return None


def explore(prop, flavor, cases, monitors):
    """run cases on model and code; returns (evaluations, nontrivial, ties, fails, samples, histogram)"""
    open_f = _open_findings("C08") + _open_findings("C09")
    ires = run_impl_many(flavor, cases)
    mres = run_model_many(flavor, cases)
    ties, fails, samples = [], [], []
    hist = collections.Counter()
    nontrivial = 0
    for c, (ist, iout), (mst, mout) in zip(cases, ires, mres):
        small = {k: c[k] for k in ("id", "machine", "guards", "logic", "agenda", "horizon")}
        small["events"] = []         # (`./check Cnn --replay` first hands the case to the generic runner, which wants the key)
        if ist == "hang" and not (mst == "ok" and mout.get("S") == "HANG"):
            # a long (but finite) run that missed the watchdog on a loaded machine: once more, alone, with more time
            ist, iout = run_impl_many(flavor, [c], timeout=40, nproc=1)[0]
            hist["rerun_after_watchdog"] += 1
        if ist == "hang":
            hist["impl_hang"] += 1
            if mst == "ok" and mout.get("S") == "HANG":
                hist["hang_agree(zero-time loop of the machine itself)"] += 1
            else:
                ties.append({"case": small, "flavor": flavor, "diff": {"impl": "hang", "model": mout.get("S") if mst == "ok" else mst}})
            continue
        if ist != "ok" or mst != "ok":
            ties.append({"case": small, "flavor": flavor, "diff": {"impl": [ist, iout if ist != "ok" else ""], "model": [mst, mout if mst != "ok" else ""]}})
            continue
        # (`stop()` landing inside a macrostep: see `compare`)
        d = compare(c, flavor, iout, mout, c["horizon"] - CUT, hist)
        if d is not None and not mout.get("clean", True):
            # a rollback re-arms the restored states in SET-ITERATION order (unspecified): after the first rollback
            # the order of equal deadlines is not determined by the inputs — compare up to that point only
            rb = Timeline(c, iout["log"], iout.get("in_flight")).rollbacks
            if rb:
                d = diff_run(iout, mout, min(rb[0] - 1, c["horizon"] - CUT))
                if d is not None and d.get("at") == "final":
                    d = None
                if d is None:
                    hist["compared_up_to_first_rollback(re-arm order is set order)"] += 1
        if d is not None:
            ties.append({"case": small, "flavor": flavor, "diff": d})
        recs = [r for _t, r in iout["log"]]
        fired = sum(1 for r in recs if r.startswith("af:"))
        svc = sum(1 for r in recs if r.startswith("svc-end:"))
        if fired or svc:
            nontrivial += 1
        hist["after_transitions_fired"] += fired
        hist["timers_armed"] += sum(r.count("/") for r in recs if r.startswith("arm:"))
        hist["service_completions"] += svc
        hist["service_starts"] += sum(1 for r in recs if r.startswith("svc-start:"))
        hist["events_received"] += sum(1 for r in recs if r.startswith("#recv:"))
        hist["expiries_delivered_while_busy"] += sum(
            1 for k, r in enumerate(recs) if r.startswith("send:after.") and k + 1 < len(recs) and not recs[k + 1].startswith(("#recv:after.", "send:after.")))
        hist["stops"] += sum(1 for r in recs if r == "stop")
        if not mout.get("clean", True):
            hist["runs_with_rollback"] += 1
        for mon in monitors:
            for p in mon(c, iout):
                who = explained_by(p, c, flavor, open_f)
                if who:
                    hist["known:" + who + ":" + p["kind"]] += 1
                else:
                    fails.append({"kind": p["kind"], "detail": p["detail"], "problem": p, "case": small, "flavor": flavor})
        if len(samples) < 2 and d is None and fired and len(json.dumps(small)) < 2200:
            samples.append({"case": small, "flavor": flavor, "records": iout["log"][:14], "final": iout["C"]})
    return len(cases), nontrivial, ties, fails, samples, hist


def _result(what, ev, nt, ties, fails, samples, hist, exhaustive=False):
    return {"evaluations": ev, "nontrivial": nt, "ties": ties[:20], "fails": fails[:20], "samples": samples[:2],
            "what": what + " | " + ", ".join(f"{k}={v}" for k, v in sorted(hist.items())), "exhaustive": exhaustive}


SIZES = {"quick": 1, "thorough": 8}
SIZES9 = {"quick": 1, "thorough": 6}


def _explore_plan(prop, flavor, plan, k, seed, monitors, pinned=()):
    """all profiles of a plan in ONE pooled exploration (a run that hangs — a zero-time loop of the machine itself — costs its
    worker a whole watchdog period: pooled, those periods overlap instead of adding up profile after profile)"""
    cases = []
    for prof, n in plan:
        cases += [gen_case(seed, prof, i, flavor) for i in range(n * k)]
        cases += [gen_case(s_, p_, i_, flavor) for (s_, p_, i_) in pinned if p_ == prof and not (s_ == seed and i_ < n * k)]
    return explore(prop, flavor, cases, monitors)


def c08_sync(tier, seed):
    """the same machines on the sync engine, timer threads on the deterministic shim"""
    k = SIZES[tier]
    plan = [("after1", 100), ("after", 100), ("slow", 150), ("slowalts", 80), ("ties", 100), ("stop", 80), ("rollback", 60),
            # composite states that own timers, entered through deep targets / history children (`gen_deep_machine`)
            ("deep", 120), ("deepslow", 60),
            # `stop()` from another thread while a blocking action of the macrostep in flight runs / in the instant in which it ends
            ("slowstop", 100), ("inststop2", 60), ("partstop2", 60)]
    tot = _explore_plan("C08", "sync", plan, k, seed, [monitor_c08])
    return _result("SyncInterpreter with timer threads on a deterministic virtual-clock shim vs runtime model: profiles " + ",".join(p for p, _ in plan), *tot)


def c09_sync(tier, seed):
    k = SIZES9[tier]
    plan = [("svc", 200), ("svcslow", 200), ("svcstop", 100),
            # composite states that own services, entered through deep targets / history children (`gen_deep_machine`)
            ("svcdeep", 150), ("svcdeepslow", 80),
            # `stop()` from another thread while a blocking action of the macrostep in flight runs / in the instant in which it ends
            ("svcslowstop", 100), ("isvcstop2", 60), ("parstop2", 60)]
    tot = _explore_plan("C09", "sync", plan, k, seed, [monitor_c09, monitor_c08])
    return _result("SyncInterpreter with invoked plain services (run inside the entry) vs runtime model: profiles " + ",".join(p for p, _ in plan), *tot)


def c08_async(tier, seed):
    """random machines with `after` x agendas, async engine on the virtual loop: model tie + C08 monitor"""
    k = SIZES[tier]
    plan = [("after1", 150), ("after", 150), ("slow", 220), ("slowalts", 120), ("ties", 150), ("stop", 120), ("rollback", 100),
            # the same-instant family (everything on one 100 ms grid; `part*`: independent parallel regions)
            ("inst", 100), ("instalts", 60), ("inststop", 60), ("part", 120), ("partslow", 120), ("partstop", 60),
            # composite states that own timers, entered through deep targets / history children (`gen_deep_machine`)
            ("deep", 120), ("deepslow", 80),
            # `stop()` INSIDE the macrostep in flight: inside a slow action, in the instant in which it ends, in the instant of an input
            ("slowstop", 120), ("inststop2", 80), ("partstop2", 80)]
    tot = _explore_plan("C08", "async", plan, k, seed, [monitor_c08])
    return _result("async Interpreter on a virtual clock vs runtime model: profiles " + ",".join(p for p, _ in plan), *tot)


# cases that once exposed an error of the tie itself (not of the library): re-run with every seed
#   svcslow-7-163: at t=500 a 100 ms service becomes due in the instant in which a state with a plain service is entered; the
#   model used to call the new service BEFORE delivering the completion that was already in asyncio's ready queue
PINNED9 = [(7, "svcslow", 163)]


def c09_async(tier, seed):
    k = SIZES9[tier]
    plan = [("svc", 300), ("svcslow", 300), ("svcstop", 200),
            # the same-instant family: expiries, completions, ends of slow actions, inputs and the first steps of freshly
            # created service tasks coincide (`par*`: on independent parallel regions)
            ("isvc", 80), ("isvcslow", 80), ("isvcstop", 40), ("par", 120), ("parslow", 120), ("parstop", 60),
            # composite states that own services, entered through deep targets / history children (`gen_deep_machine`)
            ("svcdeep", 120), ("svcdeepslow", 80),
            # `stop()` INSIDE the macrostep in flight: inside a slow action, in the instant in which it ends, in the instant of an input
            ("svcslowstop", 120), ("isvcstop2", 80), ("parstop2", 80)]
    tot = _explore_plan("C09", "async", plan, k, seed, [monitor_c09, monitor_c08], PINNED9)
    return _result("async Interpreter with invoked services (coroutines with completion times, plain callables, return/raise) vs runtime model: profiles "
                   + ",".join(p for p, _ in plan), *tot)


# exhaustive placement of inputs around one deadline -----------------------------------------------------------
PLACE_MACHINES = {
    "timeout": {"id": "m", "initial": "s", "states": {
        "s": {"entry": ["en:s"], "exit": ["ex:s"],
              "on": {"R": {"target": "s", "reenter": True, "actions": ["t:s:R"]}, "E": {"target": "u", "actions": ["t:s:E"]},
                     "X": {"actions": ["async:sleep:100", "t:s:X"]}},
              "after": {"200": {"target": "u", "actions": ["af:s:0"]}}},
        "u": {"entry": ["en:u"], "exit": ["ex:u"], "on": {"B": {"target": "s", "actions": ["t:u:B"]}}}}},
    "two-timers": {"id": "m", "initial": "s", "states": {
        "s": {"entry": ["en:s"], "exit": ["ex:s"],
              "on": {"R": {"target": "s", "reenter": True, "actions": ["t:s:R"]}, "E": {"target": "u", "actions": ["t:s:E"]},
                     "X": {"actions": ["async:sleep:100", "t:s:X"]}},
              "after": {"100": {"actions": ["af:s:0"]}, "D": {"target": "u", "actions": ["af:s:1"]}}},
        "u": {"entry": ["en:u"], "exit": ["ex:u"], "on": {"B": {"target": "s", "actions": ["t:u:B"]}}}}},
    "service": {"id": "m", "initial": "s", "states": {
        "s": {"entry": ["en:s"], "exit": ["ex:s"],
              "on": {"R": {"target": "s", "reenter": True, "actions": ["t:s:R"]}, "E": {"target": "u", "actions": ["t:s:E"]},
                     "X": {"actions": ["async:sleep:100", "t:s:X"]}},
              "invoke": {"id": "is0", "src": "svcOk", "onDone": {"target": "u", "actions": ["od:s:0"]}, "onError": {"actions": ["oe:s:0"]}}},
        "u": {"entry": ["en:u"], "exit": ["ex:u"], "on": {"B": {"target": "s", "actions": ["t:u:B"]}}}}},
}
PLACE_TIMES = [50, 99, 100, 101, 150, 199, 200, 201, 250]


def placements(tier):
    """every agenda of <= 2 (quick) / <= 3 (thorough) inputs from {R, E, X, B, stop} at the listed instants,
    before / exactly at / after the deadlines 100 and 200, on three fixed machines"""
    n = 2 if tier == "quick" else 3
    evs = ["R", "E", "X", "B", "STOP"]
    cases = []
    for name, m in PLACE_MACHINES.items():
        for k in range(0, n + 1):
            for times in itertools.combinations(PLACE_TIMES, k):
                for es in itertools.product(evs, repeat=k):
                    if "STOP" in es[:-1]:
                        continue
                    agenda = [[t, "stop"] if e == "STOP" else [t, "send", e] for t, e in zip(times, es)]
                    last = times[-1] if times else 0
                    horizon = last + TAIL
                    cases.append({"id": f"place-{name}-{len(cases)}", "machine": m, "guards": {},
                                  "logic": {"delays": {"D": 200}, "services": {"svcOk": {"coro": True, "dur": 200, "ok": True}}},
                                  "agenda": agenda + [[horizon - CUT, "obs"]], "horizon": horizon, "profile": "place"})
    return cases


def c08_placements(tier, seed):
    cases = [c for c in placements(tier)]
    ev, nt, ties, fails, samples, hist = explore("C08", "async", cases, [monitor_c08, monitor_c09])
    return _result(f"ALL agendas of <= {2 if tier == 'quick' else 3} inputs from R/E/X(slow)/B/stop at {PLACE_TIMES} ms around the deadlines 100/200 ms, 3 machines (timer, two timers, service), async",
                   ev, nt, ties, fails, samples, hist, exhaustive=True)


# exhaustive same-instant scenarios --------------------------------------------------------------------------------
def _inst_region(rn, kind):
    """one region of a same-instant machine: a little cycle in which something happens every 100 ms (`kind`)"""
    a0, a1 = f"{rn}0", f"{rn}1"
    k0, k1 = f"{rn}_{a0}", f"{rn}_{a1}"

    def st(key, **kw):
        d = {"entry": [f"en:{key}"], "exit": [f"ex:{key}"], "on": {}}
        d.update(kw)
        return d
    back = {"after": {"100": {"target": a0, "actions": [f"af:{k1}:0"]}}}
    if kind == "Tcyc":       # a timer that re-arms itself: an expiry every 100 ms
        S = {a0: st(k0, after={"100": {"target": a0, "reenter": True, "actions": [f"af:{k0}:0"]}})}
    elif kind == "T2":       # two timers of one state with the same deadline ("100" and the named delay D1 = 100)
        S = {a0: st(k0, after={"100": {"actions": [f"af:{k0}:0"]}, "D1": {"target": a1, "actions": [f"af:{k0}:1"]}}), a1: st(k1, **back)}
    elif kind == "Tnp":      # an expiry enters a state whose service is a plain callable (the task starts in that instant)
        S = {a0: st(k0, after={"100": {"target": a1, "actions": [f"af:{k0}:0"]}}),
             a1: st(k1, invoke={"id": f"i{k1}0", "src": "plainOk", "onDone": {"actions": [f"od:{k1}:0"]}}, **back)}
    elif kind == "Tnc":      # an expiry enters a state whose service takes 100 ms and leads back
        S = {a0: st(k0, after={"100": {"target": a1, "actions": [f"af:{k0}:0"]}}),
             a1: st(k1, invoke={"id": f"i{k1}0", "src": "svcFast", "onDone": {"target": a0, "actions": [f"od:{k1}:0"]}})}
    elif kind == "Scyc":     # a 100 ms service that is restarted by its own completion
        S = {a0: st(k0, invoke={"id": f"i{k0}0", "src": "svcFast", "onDone": {"target": a0, "reenter": True, "actions": [f"od:{k0}:0"]}})}
    elif kind == "Sbad":     # a 100 ms service that raises (handled), then a timer leads back
        S = {a0: st(k0, invoke={"id": f"i{k0}0", "src": "svcBadFast", "onDone": {"actions": [f"od:{k0}:0"]},
                               "onError": {"target": a1, "actions": [f"oe:{k0}:0"]}}), a1: st(k1, **back)}
    elif kind == "Ep":       # an input enters a state with a plain service
        S = {a0: st(k0), a1: st(k1, invoke={"id": f"i{k1}0", "src": "plainOk", "onDone": {"actions": [f"od:{k1}:0"]}})}
        S[a0]["on"]["E"] = {"target": a1, "actions": [f"t:{k0}:E"]}
        S[a1]["on"]["E"] = {"target": a0, "actions": [f"t:{k1}:E"]}
    elif kind == "Ec":       # an input enters a state with a 100 ms service (and a timer with the same deadline)
        S = {a0: st(k0), a1: st(k1, invoke={"id": f"i{k1}0", "src": "svcFast", "onDone": {"target": a0, "actions": [f"od:{k1}:0"]}},
                                after={"100": {"actions": [f"af:{k1}:0"]}})}
        S[a0]["on"]["E"] = {"target": a1, "actions": [f"t:{k0}:E"]}
        S[a1]["on"]["E"] = {"target": a1, "reenter": True, "actions": [f"t:{k1}:E"]}
    elif kind == "Xs":       # a timer whose transition spends 100 ms in an exit action (the run loop is busy meanwhile)
        S = {a0: st(k0, after={"100": {"target": a1, "actions": [f"af:{k0}:0"]}}), a1: st(k1, **back)}
        S[a0]["exit"] = ["async:sleep:100"] + S[a0]["exit"]
    else:
        raise ValueError(kind)
    return {"initial": a0, "entry": [f"en:{rn}"], "exit": [f"ex:{rn}"], "states": S, "on": {}}


INST_KINDS = ["Tcyc", "T2", "Tnp", "Tnc", "Scyc", "Sbad", "Ep", "Ec", "Xs"]
INST_TIMER_KINDS = ["Tcyc", "T2", "Xs"]
INST_TIMES = [100, 150, 200]


def instants(tier, kinds):
    """every pair of region kinds side by side in one parallel machine (everything happens on the 100 ms grid, so the two
    regions' expiries / completions / task starts coincide), under every agenda of <= 1 (quick) / <= 2 (thorough) inputs
    from {E, X (a 100 ms action of the root), stop} at 100 / 150 / 200 ms"""
    n = 1 if tier == "quick" else 2
    evs = ["E", "X", "STOP"]
    cases = []
    times_pool = INST_TIMES if tier == "quick" else INST_TIMES + [300]
    for i, ka in enumerate(kinds):
        for kb in kinds[i:]:
            m = {"id": "m", "type": "parallel", "states": {"a": _inst_region("a", ka), "b": _inst_region("b", kb)},
                 "on": {"X": {"actions": ["async:sleep:100", "t:root:X"]}}}
            for k in range(0, n + 1):
                for times in itertools.combinations(times_pool, k):
                    for es in itertools.product(evs, repeat=k):
                        if "STOP" in es[:-1]:
                            continue
                        agenda = [[t, "stop"] if e == "STOP" else [t, "send", e] for t, e in zip(times, es)]
                        # (a `stop` inside a slow action / in the instant in which it ends lands INSIDE the macrostep in flight:
                        #  part of this family since F72 — see `compare` for what is compared with the model there)
                        horizon = (times[-1] if times else 0) + 1000 + 37      # off the grid: nothing happens at the end of the run
                        cases.append({"id": f"inst-{ka}-{kb}-{len(cases)}", "machine": m, "guards": {},
                                      "logic": {"delays": dict(DELAYS), "services": copy.deepcopy(INST_SERVICES)},
                                      "agenda": agenda + [[horizon - 300, "obs"]], "horizon": horizon, "profile": "instants"})
    return cases


def _instants_check(prop, tier, kinds, what):
    return _result(what, *_fixed_check(instants(tier, kinds), "async", 300), exhaustive=True)


def c08_instants(tier, seed):
    return _instants_check("C08", tier, INST_TIMER_KINDS,
                           f"SAME-INSTANT timers: every pair of {INST_TIMER_KINDS} as parallel regions on one 100 ms grid x ALL agendas of <= {1 if tier == 'quick' else 2} "
                           f"inputs from E/X(slow)/stop at {INST_TIMES if tier == 'quick' else INST_TIMES + [300]} ms, async")


def c09_instants(tier, seed):
    return _instants_check("C09", tier, INST_KINDS,
                           f"SAME-INSTANT wake-ups: every pair of {INST_KINDS} as parallel regions on one 100 ms grid (expiries, completions, "
                           f"task starts, ends of slow actions coincide) x ALL agendas of <= {1 if tier == 'quick' else 2} inputs from E/X(slow)/stop at {INST_TIMES if tier == 'quick' else INST_TIMES + [300]} ms, async")


# composite states with their own tasks, entered in every way (directed) -----------------------------------------------
DEEP_ENTRIES = ["OPEN", "JA", "JR", "JH", "JHR", "JG"]      # own id | child absolute | child relative | history abs | rel | grandchild
DEEP_INSIDE = ["IN", "INR", "SELF", "SELFR", "BACK", "UP"]
DEEP_TIMES = [50, 200, 350, 500, 650]


def _deep_machine(kind, tasks):
    """`idle` and a composite state `work` (kind: compound | nested | parallel) that owns `tasks` itself. `work` is entered by
    its own id (OPEN), through a child named directly from outside — absolute (JA) / relative (JR) spelling —, through its
    history child (JH / JHR), through a grandchild (JG: two composite states on the explicit entry path); from inside it is
    re-entered through deep targets without / with `reenter` (IN / INR), through its own id (SELF / SELFR), or a child of it
    is (BACK, UP)."""
    def st(key, **kw):
        d = {"entry": [f"en:{key}"], "exit": [f"ex:{key}"], "on": {}}
        d.update(kw)
        return d
    deep = "work.review.r2" if kind != "compound" else "work.review"
    idle = st("idle")
    idle["on"] = {"OPEN": {"target": "work", "actions": ["t:idle:OPEN"]},
                  "JA": {"target": "#m.work.review", "actions": ["t:idle:JA"]},
                  "JR": {"target": "work.review", "actions": ["t:idle:JR"]},
                  "JG": {"target": "#m." + deep, "actions": ["t:idle:JG"]}}
    work = st("work", **copy.deepcopy(tasks))
    work["on"] = {"CLOSE": {"target": "idle", "actions": ["t:work:CLOSE"]}}
    draft = st("work_draft")
    review = st("work_review")
    if kind == "compound":
        idle["on"]["JH"] = {"target": "#m.work.hist", "actions": ["t:idle:JH"]}
        idle["on"]["JHR"] = {"target": "work.hist", "actions": ["t:idle:JHR"]}
        draft["on"] = {"IN": {"target": "#m.work.review", "actions": ["t:work_draft:IN"]},
                       "INR": {"target": "#m.work.review", "reenter": True, "actions": ["t:work_draft:INR"]},
                       "SELF": {"target": "#m.work", "actions": ["t:work_draft:SELF"]},
                       "SELFR": {"target": "#m.work", "reenter": True, "actions": ["t:work_draft:SELFR"]}}
        review["on"] = {"BACK": {"target": "draft", "actions": ["t:work_review:BACK"]},
                        "UP": {"target": "#m.work.draft", "reenter": True, "actions": ["t:work_review:UP"]}}
        work["initial"] = "draft"
        work["states"] = {"draft": draft, "review": review, "hist": {"type": "history", "history": "shallow"}}
    else:
        # `review` is compound itself (and owns a timer): a target `work.review.r2` puts TWO composite states on the entry path
        review["initial"] = "r1"
        review["after"] = {"D1": {"actions": ["af:work_review:0"]}}
        review["states"] = {"r1": st("work_review_r1"), "r2": st("work_review_r2"), "rh": {"type": "history", "history": "deep"}}
        review["states"]["r1"]["on"] = {"IN": {"target": "#m.work.review.r2", "actions": ["t:work_review_r1:IN"]},
                                        "INR": {"target": "#m.work.review.r2", "reenter": True, "actions": ["t:work_review_r1:INR"]}}
        review["states"]["r2"]["on"] = {"BACK": {"target": "r1", "actions": ["t:work_review_r2:BACK"]},
                                        "UP": {"target": "#m.work.review", "reenter": True, "actions": ["t:work_review_r2:UP"]}}
        review["on"] = {"SELF": {"target": "#m.work", "actions": ["t:work_review:SELF"]},
                        "SELFR": {"target": "#m.work", "reenter": True, "actions": ["t:work_review:SELFR"]}}
        idle["on"]["JH"] = {"target": "#m.work.review.rh", "actions": ["t:idle:JH"]}
        idle["on"]["JHR"] = {"target": "work.review.rh", "actions": ["t:idle:JHR"]}
        if kind == "nested":
            draft["on"] = {"IN": {"target": "#m.work.review.r2", "actions": ["t:work_draft:IN"]},
                           "INR": {"target": "#m.work.review", "reenter": True, "actions": ["t:work_draft:INR"]}}
            work["initial"] = "draft"
            work["states"] = {"draft": draft, "review": review}
        else:   # parallel: `draft` and `review` are regions; a deep target into one region enters the other by default
            draft["initial"] = "d1"
            draft["states"] = {"d1": st("work_draft_d1"), "d2": st("work_draft_d2")}
            draft["states"]["d1"]["on"] = {"E": {"target": "d2", "actions": ["t:work_draft_d1:E"]}}
            work["type"] = "parallel"
            work["states"] = {"draft": draft, "review": review}
    return {"id": "m", "initial": "idle", "states": {"idle": idle, "work": work}}


DEEP_TASKS8 = {     # C08: the composite state's own timers
    "t100": {"after": {"100": {"actions": ["af:work:0"]}}},
    "tnamed": {"after": {"D1": {"actions": ["af:work:0"]}, "200": {"target": "idle", "actions": ["af:work:1"]}}},
}
DEEP_TASKS9 = {     # C09: its own services (+ a timer)
    "plainOk": {"invoke": {"id": "iwork0", "src": "plainOk", "onDone": {"actions": ["od:work:0"]}}, "after": {"100": {"actions": ["af:work:0"]}}},
    "plainBad": {"invoke": {"id": "iwork0", "src": "plainBad", "onDone": {"actions": ["od:work:0"]}}},                      # fails, no onError
    "plainBadH": {"invoke": {"id": "iwork0", "src": "plainBad", "onDone": {"actions": ["od:work:0"]}, "onError": {"actions": ["oe:work:0"]}}},
    "two": {"invoke": [{"id": "iwork0", "src": "plainOk", "onDone": {"actions": ["od:work:0"]}},
                       {"id": "iwork1", "src": "plainBad", "onDone": {"actions": ["od:work:1"]}, "onError": {"target": "idle", "actions": ["oe:work:1"]}}]},
    "coro": {"invoke": {"id": "iwork0", "src": "svcFast", "onDone": {"actions": ["od:work:0"]}}, "after": {"100": {"actions": ["af:work:0"]}}},
    "coroBad": {"invoke": {"id": "iwork0", "src": "svcBadFast", "onDone": {"actions": ["od:work:0"]}}},                    # fails, no onError
}


def deep_cases(tier, tasks, flavor):
    """every (kind of composite state) x (its own tasks) x agenda: one way in; a way in, then something inside; a way in,
    something inside, CLOSE, a way in again (so that history children have something to restore); thorough: two things inside"""
    cases = []
    kinds = ["compound", "nested", "parallel"]
    for kind in kinds:
        for tname, tk in tasks.items():
            if flavor == "sync" and tname.startswith("coro"):
                continue
            m = _deep_machine(kind, tk)
            if flavor == "sync":
                m = _syncify(m)
            seqs = [(e,) for e in DEEP_ENTRIES]
            seqs += [(e, i) for e in DEEP_ENTRIES for i in DEEP_INSIDE]
            ins = DEEP_INSIDE if tier != "quick" else ["IN", "SELFR", "UP"]
            seqs += [(e, i, "CLOSE", e2) for e in (DEEP_ENTRIES if tier != "quick" else ["OPEN", "JG"]) for i in ins
                     for e2 in (DEEP_ENTRIES if tier != "quick" else ["JA", "JR", "JH", "JG"])]
            if tier != "quick":
                seqs += [(e, i, j) for e in DEEP_ENTRIES for i in DEEP_INSIDE for j in DEEP_INSIDE]
            for sq in seqs:
                agenda = [[t, "send", e] for t, e in zip(DEEP_TIMES, sq)]
                horizon = agenda[-1][0] + 1000 + 37
                cases.append({"id": f"deep-{kind}-{tname}-{flavor}-{len(cases)}", "machine": m, "guards": {},
                              "logic": {"delays": dict(DELAYS), "services": copy.deepcopy(INST_SERVICES)},
                              "agenda": agenda + [[horizon - 300, "obs"]], "horizon": horizon, "profile": "deepfix"})
            # the composite state's own deadline falls INSIDE a slow exit action of one of its descendants, in a transition
            # that leaves (and mostly re-enters) the composite state: every leaf below `work` exits slowly (100 ms); `work`
            # is entered at 50 (timer / service due from 150 on), the second input arrives at 80 / 100 / 140
            ms = copy.deepcopy(_deep_machine(kind, tk))

            def slow_leaves(n):
                kids = [c for c in (n.get("states") or {}).values() if c.get("type") != "history"]
                if not kids:
                    n["exit"] = ["async:sleep:100"] + n["exit"]
                for c in kids:
                    slow_leaves(c)
            slow_leaves(ms["states"]["work"])
            if flavor == "sync":
                ms = _syncify(ms)
            for t2 in (80, 100, 140):
                for i in DEEP_INSIDE + ["CLOSE"]:
                    for tail in ((), ("OPEN",)) if i == "CLOSE" else ((),):
                        agenda = [[50, "send", "OPEN"], [t2, "send", i]] + [[400, "send", e] for e in tail]
                        horizon = 400 + 1000 + 37
                        cases.append({"id": f"deep-slowexit-{kind}-{tname}-{flavor}-{len(cases)}", "machine": ms, "guards": {},
                                      "logic": {"delays": dict(DELAYS), "services": copy.deepcopy(INST_SERVICES)},
                                      "agenda": agenda + [[horizon - 300, "obs"]], "horizon": horizon, "profile": "deepfix"})
    return cases


def _fixed_check(cases, flavor, cut):
    """model vs code + both monitors on a list of fixed cases; returns (evaluations, nontrivial, ties, fails, samples, histogram)"""
    open_f = _open_findings("C08") + _open_findings("C09")
    ires = run_impl_many(flavor, cases)
    mres = run_model_many(flavor, cases)
    ties, fails, samples = [], [], []
    hist = collections.Counter()
    nontrivial = 0
    for c, (ist, iout), (mst, mout) in zip(cases, ires, mres):
        small = {k: c[k] for k in ("id", "machine", "guards", "logic", "agenda", "horizon")}
        small["events"] = []         # (`./check Cnn --replay` first hands the case to the generic runner, which wants the key)
        if ist != "ok" or mst != "ok":
            ties.append({"case": small, "flavor": flavor, "diff": {"impl": [ist, iout if ist != "ok" else ""], "model": [mst, mout if mst != "ok" else ""]}})
            continue
        d = compare(c, flavor, iout, mout, c["horizon"] - cut, hist)
        if d is not None:
            ties.append({"case": small, "flavor": flavor, "diff": d})
        recs = [r for _t, r in iout["log"]]
        # instants at which at least two independent things happened (two sends by tasks, or a send by a task and a task start)
        per_t = collections.Counter(t for t, r in iout["log"] if r.startswith(("send:after.", "send:done.", "send:error.", "svc-start:")))
        hist["instants_with_coinciding_wakeups"] += sum(1 for v in per_t.values() if v >= 2)
        hist["service_starts"] += sum(1 for r in recs if r.startswith("svc-start:"))
        hist["service_completions"] += sum(1 for r in recs if r.startswith("svc-end:"))
        hist["after_transitions_fired"] += sum(1 for r in recs if r.startswith("af:"))
        hist["entries_of_work"] += sum(1 for r in recs if r.startswith("en:work@"))
        if c.get("profile") == "deepfix":
            nontrivial += 1 if any(r.startswith(("af:work:", "svc-start:iwork")) for r in recs) else 0
        elif any(v >= 2 for v in per_t.values()):
            nontrivial += 1
        for mon in (monitor_c08, monitor_c09):
            for p in mon(c, iout):
                who = explained_by(p, c, flavor, open_f)
                if who:
                    hist["known:" + who + ":" + p["kind"]] += 1
                else:
                    fails.append({"kind": p["kind"], "detail": p["detail"], "problem": p, "case": small, "flavor": flavor})
        if len(samples) < 2 and d is None and len(json.dumps(small)) < 2600:
            samples.append({"case": small, "flavor": flavor, "records": iout["log"][:14], "final": iout["C"]})
    return len(cases), nontrivial, ties, fails, samples, hist


def _deep_check(tier, tasks, what):
    tot = [0, 0, [], [], [], collections.Counter()]
    for flavor in ("sync", "async"):
        ev, nt, ties, fails, samples, hist = _fixed_check(deep_cases(tier, tasks, flavor), flavor, 300)
        tot[0] += ev; tot[1] += nt; tot[2] += ties; tot[3] += fails; tot[4] += samples[:1]; tot[5].update(hist)
    return _result(what, *tot, exhaustive=True)


def c08_deep(tier, seed):
    return _deep_check(tier, DEEP_TASKS8,
                       "COMPOSITE states (compound / nested / parallel) that own `after` timers, entered by own id, through a child or grandchild named "
                       "directly from outside (absolute + relative), through a history child, re-entered from inside via deep targets with/without reenter; "
                       "ALL agendas (way in | way in, inside | way in, inside, CLOSE, way in), both engines")


def c09_deep(tier, seed):
    return _deep_check(tier, DEEP_TASKS9,
                       "COMPOSITE states (compound / nested / parallel) that own invoked services (plain, coroutine, failing without onError, two at once), entered "
                       "by own id, through a child or grandchild named directly from outside (absolute + relative), through a history child, re-entered from "
                       "inside via deep targets with/without reenter; ALL agendas (way in | way in, inside | way in, inside, CLOSE, way in), both engines")


# ------------------------------------------------------------------------------------------- replay of a finding
def replay_monitor(case, obs, flavor):
    """check.py replays a finding through impl.run_guarded (which knows nothing of agendas); the real replay
    happens here: run the case's agenda on the right engine and report the problems its classifier names"""
    if "agenda" not in case:
        return []
    st, out = run_guarded(flavor if flavor in RUNNERS else "async", case, 20)
    if st != "ok":
        return [{"kind": "hang", "step": -1, "at": None, "detail": "replay did not finish"}]
    probs = monitor_c08(case, out) + monitor_c09(case, out)
    name = case.get("finding_classifier")
    if name:
        probs = [p for p in probs if CLASSIFIERS[name](p, case, flavor)]
    return [{"kind": p["kind"], "step": -1, "at": None, "detail": p["detail"]} for p in probs]
