"""C19: abstract machine definitions, their JSON denotation, and renderers to the three Python styles.

An abstract definition `D` (plain JSON-able dict):
  id, context|None, root|None (a state record without name/children), states [node...],
  transitions [ {src: path, event, target: path|None, guard|None, actions [...], reenter, internal} ]   (declaration order;
      src/target are State OBJECTS, identified by the path of names from the top),
  logic {actions: [{ref, fn, explicit}], guards: [...], services: [...]},  gv {guard name: bool}
node: name, initial, final, parallel, history|None, on {ev: by-name JSON}|None, entry [...], exit [...],
      after {delay: ...}|None, invoke|None, onDone|None, always|None, tags [...], meta {...}|None, states [...]
"""
from __future__ import annotations
import copy, json, keyword, random

EVENTS = ["GO", "NEXT", "BACK", "E1", "E2", "TICK"]
TOP_NAMES = ["idle", "run", "work", "wait", "done", "s1", "boot", "halt", "Ready"]
SUB_NAMES = ["a", "b", "c", "x", "y", "inner", "sub1", "sub2", "leafA", "leaf_b", "k9"]
# python function name -> referenced (registered) name is ref_camel(fn) when auto-named
ACTION_FNS = ["log_it", "inc_count", "step2_done", "do_2nd", "notify", "markDone", "x__y", "trail_", "save_v2_file", "inc_b1c"]
GUARD_FNS = ["is_ready", "check_ok", "can_go", "has_2fa", "isOpen"]
SERVICE_FNS = ["fetch_data", "load_it", "svc2_run"]
EXPLICIT_REFS = ["custom.name-1", "UPPER_CASE", "my_snake_ref", "Weird Name", "fetchUser2data"]
RESERVED_ATTRS = {"machine_id", "initial_context", "machine_root", "create_machine", "State", "action", "guard", "service", "transition"}


def ref_camel(s: str) -> str:
    """independent reference for `_snake_to_camel` on ASCII (no call to str.title)"""
    parts = s.split("_")
    out = parts[0]
    for p in parts[1:]:
        prev = False
        for ch in p:
            if ("a" <= ch <= "z") or ("A" <= ch <= "Z"):
                out += (ch.lower() if prev else ch.upper())
                prev = True
            else:
                out += ch
                prev = False
    return out


# ------------------------------------------------------------------------------------------ generator
class _G:
    def __init__(self, rng, collide):
        self.rng = rng
        self.collide = collide
        self.used = set()
        self.acts, self.guards, self.svcs = {}, {}, {}

    def fresh(self, pool):
        cands = [n for n in pool if n not in self.used]
        if not cands:
            n = f"z{len(self.used)}"
        else:
            n = self.rng.choice(cands)
        self.used.add(n)
        return n

    def _logic(self, table, fns, prefix):
        rng = self.rng
        if table and rng.random() < 0.5:
            return rng.choice(list(table))
        if rng.random() < 0.2:
            ref = rng.choice(EXPLICIT_REFS) + ("" if prefix == "a" else prefix.upper())
            fn = f"impl_{prefix}{len(table)}"
            table.setdefault(ref, {"ref": ref, "fn": fn, "explicit": True})
            return ref
        fn = rng.choice(fns)
        ref = ref_camel(fn)
        table.setdefault(ref, {"ref": ref, "fn": fn, "explicit": rng.random() < 0.25})
        return ref

    def action(self):
        return self._logic(self.acts, ACTION_FNS, "a")

    def guard(self):
        return self._logic(self.guards, GUARD_FNS, "g")

    def service(self):
        return self._logic(self.svcs, SERVICE_FNS, "s")

    def action_item(self):
        r = self.rng.random()
        if r < 0.12:
            return {"type": "assign", "params": {"assignment": {"flag": self.rng.randint(1, 9)}}}
        if r < 0.2:
            return {"type": self.action(), "params": {"n": self.rng.randint(0, 3), "tagz": ["p"]}}
        return self.action()

    def actions(self, lo=1, hi=2):
        return [self.action_item() for _ in range(self.rng.randint(lo, hi))]


def _blank(name):
    return {"name": name, "initial": False, "final": False, "parallel": False, "history": None, "on": None, "entry": [], "exit": [],
            "after": None, "invoke": None, "onDone": None, "always": None, "tags": [], "meta": None, "states": []}


def _byname_trans(g, names):
    rng = g.rng
    tgt = rng.choice(names)
    r = rng.random()
    if r < 0.35:
        return tgt
    d = {"target": tgt}
    if rng.random() < 0.4:
        d["guard"] = g.guard() if rng.random() < 0.7 else {"type": "and", "children": [g.guard(), {"type": "not", "children": [g.guard()]}]}
    if rng.random() < 0.5:
        d["actions"] = g.actions()
    if r > 0.9:
        return [d, rng.choice(names)]
    return d


def _decorate(g, node, all_names, top_names, depth):
    rng = g.rng
    if node["history"]:
        return
    if rng.random() < 0.3:
        node["entry"] = g.actions()
    if rng.random() < 0.2:
        node["exit"] = g.actions()
    if rng.random() < 0.25:
        node["on"] = {ev: _byname_trans(g, all_names) for ev in rng.sample(EVENTS, rng.randint(1, 2))}
    if rng.random() < 0.15:
        node["tags"] = rng.sample(["busy", "t1", "visible"], rng.randint(1, 2))
    if rng.random() < 0.15:
        node["meta"] = {"alert": True, "lvl": rng.randint(0, 5), "nested": {"xs": [1, 2]}}
    if rng.random() < 0.1 and not node["final"]:
        # hours: a timer thread of the sync engine must never fire in wall-clock time during a check
        node["after"] = {str(rng.choice([36000000, 54000000, 72000000])): _byname_trans(g, all_names)}


def gen_def(seed, idx, collide=False, overlap=False):
    rng = random.Random(f"c19:{seed}:{idx}:{collide}:{overlap}")
    g = _G(rng, collide)
    D = {"id": rng.choice(["m", "machine1", "Mx"]), "context": None, "root": None, "states": [], "transitions": [], "features": []}
    root_parallel = rng.random() < 0.08
    ntop = rng.randint(2, 4)
    tops = [_blank(g.fresh(TOP_NAMES)) for _ in range(ntop)]
    if not root_parallel:
        tops[0]["initial"] = True
    D["states"] = tops

    def grow(node, depth):
        r = rng.random()
        if depth < 2 and r < 0.32:
            kids = [_blank(g.fresh(SUB_NAMES)) for _ in range(rng.randint(2, 3))]
            kids[rng.randrange(len(kids)) if rng.random() < 0.3 else 0]["initial"] = True
            if rng.random() < 0.3:
                f = _blank(g.fresh(SUB_NAMES + ["fin", "end"]))
                f["final"] = True
                kids.append(f)
                if rng.random() < 0.7:
                    node["_wants_ondone"] = True
            if rng.random() < 0.25:
                h = _blank(g.fresh(["hist", "h1", "mem"]))
                h["history"] = rng.choice(["shallow", "deep"])
                kids.append(h)
                D["features"].append("history")
            node["states"] = kids
            D["features"].append("compound")
            for k in kids:
                if not k["final"] and not k["history"]:
                    grow(k, depth + 1)
        elif depth < 2 and r < 0.42:
            node["parallel"] = True
            regs = [_blank(g.fresh(SUB_NAMES + ["regA", "regB"])) for _ in range(2)]
            for rg in regs:
                if rng.random() < 0.8:
                    ks = [_blank(g.fresh(SUB_NAMES + ["p1", "p2", "p3", "p4"])) for _ in range(2)]
                    ks[0]["initial"] = True
                    rg["states"] = ks
            node["states"] = regs
            D["features"].append("parallel")

    for t in tops:
        grow(t, 0)
    if not root_parallel and rng.random() < 0.35 and len(tops) > 2 and not tops[-1]["states"]:
        tops[-1]["final"] = True
        D["features"].append("final-top")

    # ---- colliding bare names: rename one nested state to the name of a state under another parent
    def walk(nodes, pre=()):
        for n in nodes:
            yield pre + (n["name"],), n
            yield from walk(n["states"], pre + (n["name"],))

    if collide:
        allp = list(walk(D["states"]))
        nested = [(p, n) for p, n in allp if len(p) >= 2]
        done = False
        rng.shuffle(nested)
        for p, n in nested:
            sibs = {q[-1] for q, _ in allp if q[:-1] == p[:-1]}
            cands = [q for q, m in allp if q != p and q[-1] not in sibs and q[:-1] != p[:-1] and not m["history"]]
            if cands:
                q = rng.choice(cands)
                n["name"] = q[-1]
                done = True
                break
        if done:
            D["features"].append("colliding-names")
    allp = list(walk(D["states"]))
    all_names = [p[-1] for p, n in allp if not n["history"]]
    top_names = [t["name"] for t in tops]
    for p, n in allp:
        _decorate(g, n, all_names, top_names, len(p))
        if n.pop("_wants_ondone", False):
            n["onDone"] = rng.choice(top_names) if rng.random() < 0.5 else {"target": rng.choice(top_names), "actions": g.actions()}
    # invocations: the onDone target is a top-level state whose subtree invokes nothing (no done -> re-invoke loop:
    # termination is C13's subject, here a loop only costs time), and a definition has either invocations or `always`
    inv_hosts = [(p, n) for p, n in allp if not n["final"] and not n["history"] and rng.random() < 0.07]
    for p, n in inv_hosts:
        sinks = [t["name"] for t in tops if t["name"] != p[0]]
        od = {"actions": g.actions()}
        if sinks and rng.random() < 0.8:
            od["target"] = rng.choice(sinks)
        n["invoke"] = {"src": g.service(), "onDone": od}
        if rng.random() < 0.5:
            n["invoke"]["id"] = "inv" + n["name"]
    if inv_hosts:
        host_tops = {p[0] for p, _ in inv_hosts}
        for p, n in inv_hosts:
            tgt = n["invoke"]["onDone"].get("target")
            if tgt in host_tops:
                del n["invoke"]["onDone"]["target"]
    if not inv_hosts and rng.random() < 0.12:
        cand = [n for p, n in allp if not n["final"] and not n["history"] and not n["states"]]
        if cand:
            n = rng.choice(cand)
            n["always"] = {"target": rng.choice(all_names), "guard": g.guard()}
            D["features"].append("always")
    # ---- Transition objects (by reference)
    srcs = [p for p, n in allp if not n["history"]]
    tgts = [p for p, n in allp]
    for _ in range(rng.randint(2, 8)):
        src = rng.choice(srcs)
        t = {"src": list(src), "event": rng.choice(EVENTS), "target": list(rng.choice(tgts)), "guard": None, "actions": [],
             "reenter": False, "internal": False}
        if rng.random() < 0.3:
            t["guard"] = g.guard()
        if rng.random() < 0.4:
            t["actions"] = [a for a in g.actions() if isinstance(a, str)] or [g.action()]
        if rng.random() < 0.15:
            t["reenter"] = True
        if rng.random() < 0.1:
            t["internal"] = True
            t["target"] = None
            t["reenter"] = False       # `State.internal()` has no reenter parameter
        D["transitions"].append(t)
    srcnode = {p: n for p, n in allp}
    if not overlap:
        # keep `on`-dict keys and Transition events of one state disjoint (the overlapping case has its own stream)
        for t in D["transitions"]:
            n = srcnode[tuple(t["src"])]
            if n["on"] and t["event"] in n["on"]:
                free = [e for e in EVENTS if e not in n["on"]]
                t["event"] = rng.choice(free)
    else:
        cands = [t for t in D["transitions"]]
        t = rng.choice(cands)
        n = srcnode[tuple(t["src"])]
        if n["on"] is None:
            n["on"] = {}
        n["on"][t["event"]] = _byname_trans(g, all_names)
        D["features"].append("on-overlap")
    # ---- root / context
    if root_parallel or rng.random() < 0.3:
        r = _blank("")
        r["parallel"] = root_parallel
        if rng.random() < 0.6:
            r["on"] = {"ESC": rng.choice(top_names)}
        if rng.random() < 0.4:
            r["entry"] = g.actions()
        if rng.random() < 0.3:
            r["exit"] = g.actions()
        if rng.random() < 0.4:
            r["tags"] = ["v2"]
        if rng.random() < 0.3:
            r["meta"] = {"owner": "qa", "n": [1]}
        # machine-level `always` / `after` next to (or without) a machine-level `on`: the root's eventless transition is
        # stored under `on[""]` by the Python API, next to the root's own `on` map
        root_always_guard = None
        if not inv_hosts and not root_parallel and rng.random() < 0.4:
            root_always_guard = g.guard()
            r["always"] = {"target": rng.choice(top_names), "guard": root_always_guard}
            D["features"].append("root-always" + ("+on" if r["on"] else ""))
        if not root_parallel and rng.random() < 0.25:
            r["after"] = {str(rng.choice([300, 700])): {"target": rng.choice(top_names), "actions": g.actions()}}
            D["features"].append("root-after")
        D["root"] = r
        D["features"].append("root-parallel" if root_parallel else "root-props")
    if rng.random() < 0.6:
        D["context"] = {"count": 0, "k": "v", "nested": {"xs": [1, 2]}}
    D["logic"] = {"actions": list(g.acts.values()), "guards": list(g.guards.values()), "services": list(g.svcs.values())}
    D["gv"] = {x["ref"]: rng.random() < 0.7 for x in D["logic"]["guards"]}
    if D["root"] and D["root"]["always"] is not None:
        # a machine-level eventless transition whose guard holds fires after every event (up to the bound): mostly off
        D["gv"][D["root"]["always"]["guard"]] = rng.random() < 0.35
    evs = sorted({t["event"] for t in D["transitions"]} | {e for p, n in allp if n["on"] for e in n["on"]} | ({"ESC"} if D["root"] and D["root"]["on"] else set()))
    ops = [["send", rng.choice(evs + ["NOPE"])] for _ in range(rng.randint(5, 9))]
    for p, n in allp:
        if n["after"] and rng.random() < 0.7:
            d = list(n["after"])[0]
            ops.insert(rng.randrange(len(ops) + 1), ["after", f"after.{d}." + ".".join([D["id"], *p])])
    D["ops"] = ops
    for k in ("after", "invoke", "onDone", "tags", "meta", "entry", "exit", "on"):
        if any(n[k] for p, n in allp):
            D["features"].append(k)
    return D


def paths_of(D):
    def walk(nodes, pre=()):
        for n in nodes:
            yield pre + (n["name"],), n
            yield from walk(n["states"], pre + (n["name"],))
    return list(walk(D["states"]))


def dup_names(D):
    names = [p[-1] for p, _ in paths_of(D)]
    return sorted({n for n in names if names.count(n) > 1})


def decollide(D):
    """the same definition with every repeated bare name made unique (by-name references are left alone)"""
    D2 = copy.deepcopy(D)
    seen = {}
    ren = {}
    def walk(nodes, pre, newpre):
        for n in nodes:
            old = n["name"]
            k = seen.get(old, 0)
            seen[old] = k + 1
            if k:
                n["name"] = f"{old}_u{k}"
            ren[pre + (old,)] = newpre + (n["name"],)
            walk(n["states"], pre + (old,), newpre + (n["name"],))
    walk(D2["states"], (), ())
    for t in D2["transitions"]:
        t["src"] = list(ren[tuple(t["src"])])
        if t["target"] is not None:
            t["target"] = list(ren[tuple(t["target"])])
    return D2


# ------------------------------------------------------------------------------------------ JSON denotation
def denote_json(D):
    """the config the definition denotes (written independently of pythonic.py): every Transition object belongs to
    the state OBJECT it was declared on and targets the state OBJECT it names (absolute id)"""
    mid = D["id"]

    def trans_entry(t):
        e = {}
        if not t["internal"] and t["target"] is not None:
            e["target"] = "#" + ".".join([mid, *t["target"]])
        if t["guard"]:
            e["guard"] = t["guard"]
        if t["actions"]:
            e["actions"] = list(t["actions"])
        if t["reenter"]:
            e["reenter"] = True
        return e

    def node_cfg(n, path):
        c = {}
        if n["final"]:
            c["type"] = "final"
        elif n["parallel"]:
            c["type"] = "parallel"
        elif n["history"]:
            c["type"] = "history"
            c["history"] = n["history"]
        if n["entry"]:
            c["entry"] = copy.deepcopy(n["entry"])
        if n["exit"]:
            c["exit"] = copy.deepcopy(n["exit"])
        on = copy.deepcopy(n["on"]) if n["on"] else {}
        mine = [t for t in D["transitions"] if tuple(t["src"]) == path]
        by_ev = {}
        for t in mine:
            by_ev.setdefault(t["event"], []).append(trans_entry(t))
        for ev, lst in by_ev.items():
            # the library's own merge rule (pinned by tests/test_pythonic.py::TestMergeRules): Transition objects
            # for an event REPLACE the State(on=...) entry of that event
            on[ev] = lst[0] if len(lst) == 1 else lst
        if on:
            c["on"] = on
        if n["always"] is not None:
            c["always"] = copy.deepcopy(n["always"])
        if n["after"]:
            c["after"] = copy.deepcopy(n["after"])
        if n["invoke"]:
            c["invoke"] = copy.deepcopy(n["invoke"])
        if n["onDone"] is not None:
            c["onDone"] = copy.deepcopy(n["onDone"])
        if n["tags"]:
            c["tags"] = list(n["tags"])
        if n["meta"]:
            c["meta"] = copy.deepcopy(n["meta"])
        if n["states"]:
            c["states"] = {k["name"]: node_cfg(k, path + (k["name"],)) for k in n["states"]}
            ini = [k["name"] for k in n["states"] if k["initial"]]
            if ini and not n["parallel"]:
                c["initial"] = ini[0]
        return c

    cfg = {"id": mid, "states": {n["name"]: node_cfg(n, (n["name"],)) for n in D["states"]}}
    ini = [n["name"] for n in D["states"] if n["initial"]]
    if ini:
        cfg["initial"] = ini[0]
    if D["context"] is not None:
        cfg["context"] = copy.deepcopy(D["context"])
    r = D["root"]
    if r:
        if r["parallel"]:
            cfg["type"] = "parallel"
        if r["on"]:
            cfg["on"] = copy.deepcopy(r["on"])
        if r["always"] is not None:
            cfg["always"] = copy.deepcopy(r["always"])
        for k in ("entry", "exit", "after", "invoke", "tags", "meta"):
            if r[k]:
                cfg[k] = copy.deepcopy(r[k])
        if r["onDone"] is not None:
            cfg["onDone"] = copy.deepcopy(r["onDone"])
    return cfg


# ------------------------------------------------------------------------------------------ renderers
def _ident_ok(name):
    return name.isidentifier() and not keyword.iskeyword(name) and not name.startswith("_") and name not in RESERVED_ATTRS


def _after_py(after):
    """python styles write numeric delays as ints"""
    return "{" + ", ".join(f"{int(k) if k.isdigit() else k!r}: {v!r}" for k, v in after.items()) + "}"


def _state_kwargs(n, child_expr=None, skip_entry_last=False, skip_exit_last=False, with_initial=True):
    kw = []
    if with_initial and n["initial"]:
        kw.append("initial=True")
    if n["final"]:
        kw.append("final=True")
    if n["parallel"]:
        kw.append("parallel=True")
    if n["history"]:
        kw.append(f"history={n['history']!r}")
    if n["on"]:
        kw.append(f"on={n['on']!r}")
    entry = n["entry"][:-1] if skip_entry_last else n["entry"]
    exit_ = n["exit"][:-1] if skip_exit_last else n["exit"]
    if entry:
        kw.append(f"entry={entry!r}")
    if exit_:
        kw.append(f"exit={exit_!r}")
    if n["after"]:
        kw.append(f"after={_after_py(n['after'])}")
    if n["invoke"]:
        kw.append(f"invoke={n['invoke']!r}")
    if n["onDone"] is not None:
        kw.append(f"on_done={n['onDone']!r}")
    if n["always"] is not None:
        kw.append(f"always={n['always']!r}")
    if n["tags"]:
        kw.append(f"tags={n['tags']!r}")
    if n["meta"]:
        kw.append(f"meta={n['meta']!r}")
    if child_expr:
        kw.append("states=[" + ", ".join(child_expr) + "]")
    return kw


def _trans_expr(t, var, rng):
    src = var[tuple(t["src"])]
    kw = []
    if t["guard"]:
        kw.append(f"guard={t['guard']!r}")
    if t["actions"]:
        kw.append(f"actions={t['actions']!r}")
    if t["internal"]:
        if rng.random() < 0.5:
            return f"{src}.internal({t['event']!r}" + "".join(", " + k for k in kw) + ")"
        return f"transition({src}, {t['event']!r}, {src}" + "".join(", " + k for k in kw) + ", internal=True)"
    if t["reenter"]:
        kw.append("reenter=True")
    tgt = var[tuple(t["target"])]
    if rng.random() < 0.65:
        return f"{src}.to({tgt}, event={t['event']!r}" + "".join(", " + k for k in kw) + ")"
    return f"transition({src}, {t['event']!r}, {tgt}" + "".join(", " + k for k in kw) + ")"


def _trans_lines(D, var, rng, indent, prefix="t"):
    """assignments `t<i> = expr | expr ...` (random grouping with `|`, order preserved); returns (lines, names)"""
    lines, names = [], []
    i = 0
    ts = D["transitions"]
    while i < len(ts):
        k = 1
        while i + k < len(ts) and rng.random() < 0.35:
            k += 1
        nm = f"{prefix}{len(names)}"
        lines.append(f"{indent}{nm} = " + " | ".join(_trans_expr(t, var, rng) for t in ts[i:i + k]))
        names.append(nm)
        i += k
    return lines, names


def _logic_body(kind, ref, indent):
    if kind == "actions":
        b = [f"LOG.append({ref!r} + '@' + event.type)"]
        if ref.startswith("inc"):
            b.append("context['count'] = context.get('count', 0) + 1")
    elif kind == "guards":
        b = [f"return GV.get({ref!r}, True)"]
    else:
        b = [f"LOG.append('svc:' + {ref!r})", "return 7"]
    return [indent + x for x in b]


_SIG = {"actions": "interpreter, context, event, action_def", "guards": "context, event", "services": "interpreter, context, event"}
_DECO = {"actions": "action", "guards": "guard", "services": "service"}


def render_class(D, seed):
    """source of a `StateMachine` subclass; the namespace ends with `build()` returning a fresh machine"""
    rng = random.Random(f"cls:{seed}")
    L = ["from xstate_statemachine import State, StateMachine, action, guard, service, transition", ""]
    var = {}
    body = []
    cname = D["id"] if (_ident_ok(D["id"]) and rng.random() < 0.5) else "MachineDef"
    if cname != D["id"]:
        body.append(f"    machine_id = {D['id']!r}")
    if D["context"] is not None:
        body.append(f"    initial_context = {D['context']!r}")
    if D["root"]:
        kw = _state_kwargs(D["root"], with_initial=False)
        body.append("    machine_root = State(" + ", ".join(([repr('')] if rng.random() < 0.5 else []) + kw) + ")")
    # entry/exit decorators: the LAST entry/exit action of a few states is declared with @state.enter / @state.exit
    auto = {x["ref"]: x for x in D["logic"]["actions"] if not x["explicit"] and ref_camel(x["fn"]) == x["ref"]}
    deco = {}      # ref -> ("enter"|"exit", path)
    for p, n in paths_of(D):
        for which, key in (("enter", "entry"), ("exit", "exit")):
            lst = n[key]
            if lst and isinstance(lst[-1], str) and lst[-1] in auto and lst[-1] not in lst[:-1] and lst[-1] not in deco and rng.random() < 0.4:
                deco[lst[-1]] = (which, p)
    skip = {(p, w) for (w, p) in deco.values()}
    outside = rng.random() < 0.3      # nested State objects at module level instead of `_n` class attributes
    cnt = [0]
    pre_lines = []

    def emit(n, path, top):
        kids = [emit(k, path + (k["name"],), False) for k in n["states"]]
        kw = _state_kwargs(n, kids, (path, "enter") in skip, (path, "exit") in skip)
        if top:
            if _ident_ok(n["name"]) and rng.random() < 0.5:
                attr, args = n["name"], kw
            elif _ident_ok(n["name"]) and rng.random() < 0.5:
                attr, args = n["name"], [repr(n["name"])] + kw
            else:
                attr, args = f"st{cnt[0]}", [repr(n["name"])] + kw
            cnt[0] += 1
            body.append(f"    {attr} = State(" + ", ".join(args) + ")")
            var[path] = attr
            return attr
        v = (f"N{cnt[0]}" if outside else f"_n{cnt[0]}")
        cnt[0] += 1
        (pre_lines if outside else body).append(("" if outside else "    ") + f"{v} = State(" + ", ".join([repr(n["name"])] + kw) + ")")
        var[path] = v
        return v

    for n in D["states"]:
        emit(n, (n["name"],), True)
    tl, _ = _trans_lines(D, var, rng, "    ", "tr")
    body.extend(tl)
    for kind in ("actions", "guards", "services"):
        for x in D["logic"][kind]:
            ref, fn = x["ref"], x["fn"]
            if ref in deco and kind == "actions":
                which, p = deco[ref]
                body.append(f"    @{var[p]}.{which}")
            elif x["explicit"] or ref_camel(fn) != ref:
                body.append(f"    @{_DECO[kind]}({ref!r})")
            else:
                body.append(f"    @{_DECO[kind]}")
            body.append(f"    def {fn}(self, {_SIG[kind]}):")
            body.extend(_logic_body(kind, ref, "        "))
    L.extend(pre_lines)
    L.append(f"class {cname}(StateMachine):")
    L.extend(body or ["    pass"])
    L.append("")
    L.append("def build():")
    L.append(f"    return {cname}.create_machine()")
    return "\n".join(L) + "\n"


def render_functional(D, seed):
    rng = random.Random(f"fun:{seed}")
    L = ["from xstate_statemachine import State, action, guard, service, transition, build_machine", ""]
    var = {}
    cnt = [0]

    def emit(n, path):
        kids = [emit(k, path + (k["name"],)) for k in n["states"]]
        v = f"s{cnt[0]}"
        cnt[0] += 1
        L.append(f"{v} = State(" + ", ".join([repr(n["name"])] + _state_kwargs(n, kids)) + ")")
        var[path] = v
        return v

    tops = [emit(n, (n["name"],)) for n in D["states"]]
    tl, tnames = _trans_lines(D, var, rng, "", "t")
    L.extend(tl)
    fl = {"actions": [], "guards": [], "services": []}
    for kind in ("actions", "guards", "services"):
        for x in D["logic"][kind]:
            ref, fn = x["ref"], x["fn"]
            if x["explicit"] or ref_camel(fn) != ref:
                L.append(f"@{_DECO[kind]}({ref!r})")
            elif rng.random() < 0.7:
                L.append(f"@{_DECO[kind]}")
            # else: raw callable, named by `_snake_to_camel(fn.__name__)`
            L.append(f"def {fn}({_SIG[kind]}):")
            L.extend(_logic_body(kind, ref, "    "))
            fl[kind].append(fn)
    if D["root"]:
        L.append("ROOT = State(" + ", ".join([repr("")] + _state_kwargs(D["root"], with_initial=False)) + ")")
    L.append(f"CTX = {D['context']!r}")
    L.append("")
    L.append("def build():")
    args = [f"id={D['id']!r}", "states=[" + ", ".join(tops) + "]", "transitions=[" + ", ".join(tnames) + "]"]
    for kind in ("actions", "guards", "services"):
        if fl[kind]:
            args.append(f"{kind}=[" + ", ".join(fl[kind]) + "]")
    if D["context"] is not None:
        args.append("context=CTX")
    if D["root"]:
        args.append("root=ROOT")
    L.append("    return build_machine(" + ", ".join(args) + ")")
    return "\n".join(L) + "\n"


def builder_ops(D):
    """the sequence of MachineBuilder calls for D (JSON-able; rendered to source by render_builder and folded by the
    Lean model). Nested states can only be given as raw dicts (`child_states`), with their transitions inlined."""
    full = denote_json(D)
    ops = []
    if D["context"] is not None:
        ops.append({"op": "context", "value": D["context"]})
    for n in D["states"]:
        op = {"op": "state", "name": n["name"]}
        for k in ("initial", "final", "parallel"):
            if n[k]:
                op[k] = True
        for k in ("history", "on", "entry", "exit", "after", "invoke", "onDone", "always", "tags", "meta"):
            if n[k]:
                op[k] = copy.deepcopy(n[k])
        if n["onDone"] is not None:
            op["onDone"] = copy.deepcopy(n["onDone"])
        if n["always"] is not None:
            op["always"] = copy.deepcopy(n["always"])
        ops.append(op)
        if n["states"]:
            c = full["states"][n["name"]]
            ops.append({"op": "child_states", "parent": n["name"], "initial": c.get("initial"), "states": c["states"],
                        "parallel": bool(n["parallel"])})
    for t in D["transitions"]:
        if len(t["src"]) == 1:
            op = {"op": "transition", "source": t["src"][0], "event": t["event"],
                  "target": ("#" + ".".join([D["id"], *t["target"]])) if t["target"] is not None else None,
                  "guard": t["guard"], "actions": list(t["actions"]), "reenter": t["reenter"], "internal": t["internal"]}
            ops.append(op)
    r = D["root"]
    if r:
        props = {}
        if r["parallel"]:
            props["type"] = "parallel"
        for k in ("on", "entry", "exit", "after", "invoke", "tags", "meta"):
            if r[k]:
                props[k] = copy.deepcopy(r[k])
        if r["always"] is not None:
            props["always"] = copy.deepcopy(r["always"])
        if r["onDone"] is not None:
            props["onDone"] = copy.deepcopy(r["onDone"])
        if props:
            ops.append({"op": "root", "props": props})
    return ops


def render_builder(D, seed):
    L = ["from xstate_statemachine import MachineBuilder", ""]
    for kind in ("actions", "guards", "services"):
        for x in D["logic"][kind]:
            L.append(f"def {x['fn']}({_SIG[kind]}):")
            L.extend(_logic_body(kind, x["ref"], "    "))
    L.append(f"B = MachineBuilder({D['id']!r})")
    for op in builder_ops(D):
        if op["op"] == "context":
            L.append(f"B.context({op['value']!r})")
        elif op["op"] == "state":
            kw = []
            for k in ("initial", "final", "parallel"):
                if op.get(k):
                    kw.append(f"{k}=True")
            for k, pk in (("history", "history"), ("on", "on"), ("entry", "entry"), ("exit", "exit"), ("invoke", "invoke"),
                          ("tags", "tags"), ("meta", "meta")):
                if k in op:
                    kw.append(f"{pk}={op[k]!r}")
            if "after" in op:
                kw.append(f"after={_after_py(op['after'])}")
            if "onDone" in op:
                kw.append(f"on_done={op['onDone']!r}")
            if "always" in op:
                kw.append(f"always={op['always']!r}")
            L.append(f"B.state(" + ", ".join([repr(op["name"])] + kw) + ")")
        elif op["op"] == "child_states":
            L.append(f"B.child_states({op['parent']!r}, initial={op['initial']!r}, states={op['states']!r}, parallel={op['parallel']!r})")
        elif op["op"] == "transition":
            kw = []
            if op["guard"]:
                kw.append(f"guard={op['guard']!r}")
            if op["actions"]:
                kw.append(f"actions={op['actions']!r}")
            if op["reenter"]:
                kw.append("reenter=True")
            if op["internal"]:
                kw.append("internal=True")
            L.append(f"B.transition({op['source']!r}, {op['event']!r}, {op['target']!r}" + "".join(", " + k for k in kw) + ")")
        elif op["op"] == "root":
            L.append("B.root(**" + repr(op["props"]) + ")")
    for kind, meth in (("actions", "action"), ("guards", "guard"), ("services", "service")):
        for x in D["logic"][kind]:
            L.append(f"B.{meth}({x['ref']!r}, {x['fn']})")
    L.append("")
    L.append("def build():")
    L.append("    return B.build()")
    return "\n".join(L) + "\n"


def pydef_for_model(D):
    """the `Q compile` payload (Lean `PyDef`)"""
    def node(n):
        return {"name": n["name"], "initial": n["initial"], "final": n["final"], "parallel": n["parallel"], "history": n["history"],
                "on": n["on"], "entry": n["entry"], "exit": n["exit"], "after": n["after"], "invoke": n["invoke"],
                "onDone": n["onDone"], "always": n["always"], "tags": n["tags"], "meta": n["meta"],
                "states": [node(k) for k in n["states"]]}
    r = D["root"]
    return {"id": D["id"], "states": [node(n) for n in D["states"]], "transitions": D["transitions"], "context": D["context"],
            "root": (node(r) if r else None)}
