"""Per-property exploration specs, monitors and known-finding classifiers."""
from __future__ import annotations
from . import oracles

ASSUMPTIONS = {
    "*": [
        "user actions/guards are functions of (context, event) that touch the interpreter only through documented effects",
        "the hand-written Lean model corresponds to the code on every case explored by this run (checked, not proved)",
        "generator coverage bounds what the correspondence check can see (feature histogram in coverage)",
    ],
}


def _hang_problem(ist):
    return [{"kind": "hang", "step": -1, "at": None, "detail": "implementation did not return within the watchdog"}]


def run_oracles(prop, case, ist, iobs, flavor):
    """problems found by the monitors of `prop` on one implementation run"""
    spec = PROPS[prop]
    if ist == "hang":
        return _hang_problem(ist) if spec.get("hang_is_violation") else []
    if ist == "crash":
        return [{"kind": "raw-exception", "step": -1, "at": None, "detail": str(iobs)}] if spec.get("crash_is_violation") else []
    out = []
    for fn in spec["oracles"]:
        out.extend(fn(case, iobs, flavor))
    return out


PROPS = {
    "C01": {
        "flavors": ["sync", "async"],
        "streams": [("core", "sync", 250), ("history", "sync", 150), ("done", "sync", 100), ("loops", "sync", 100),
                    ("core", "async", 150), ("history", "async", 100), ("loops", "async", 60)],
        "oracles": [oracles.c01_legal],
        "thorough_scale": 10,
    },
}

# named predicates over (problem, minimised case, flavor) used by known_findings.json
CLASSIFIERS = {}
