"""Per-property exploration specs, monitors and known-finding classifiers."""
from __future__ import annotations
from . import oracles

ASSUMPTIONS = {
    "*": [
        "user actions/guards are functions of (context, event) that touch the interpreter only through documented effects",
        "the hand-written Lean model corresponds to the code on every case explored by this run (checked, not proved)",
        "generator coverage bounds what the correspondence check can see (feature histogram in coverage)",
    ],
}


def _hang_problem(ist):
    return [{"kind": "hang", "step": -1, "at": None, "detail": "implementation did not return within the watchdog"}]


def run_oracles(prop, case, ist, iobs, flavor, replay=False):
    """problems found by the monitors of `prop` on one implementation run"""
    spec = PROPS[prop]
    if spec.get("oracles_on_replay_only") and not replay:
        return []
    if ist == "hang":
        return _hang_problem(ist) if spec.get("hang_is_violation") else []
    if ist == "crash":
        return [{"kind": "raw-exception", "step": -1, "at": None, "detail": str(iobs)}] if spec.get("crash_is_violation") else []
    out = []
    for fn in spec["oracles"]:
        out.extend(fn(case, iobs, flavor))
    return out


def _lazy(name):
    def f(tier, seed):
        from . import qchecks
        return getattr(qchecks, name)(tier, seed)
    f.__name__ = name
    return f


def _lazy2(name):
    def f(tier, seed):
        from . import multichecks
        return getattr(multichecks, name)(tier, seed)
    f.__name__ = name
    return f


def _c07_builtin(case, obs, flavor):
    from . import multichecks
    return multichecks.c07_builtin_failure(case, obs, flavor)


def _c16_replay_monitor(case, obs, flavor):
    """used only to replay a C16 finding in-process: rebuild and rerun the case several times"""
    from . import impl
    base = None
    for k in range(12):
        junk = [object() for _ in range(k * 37)]
        st, o = impl.run_guarded(flavor if flavor in ("sync", "async") else "sync", case, 8)
        if base is None:
            base = o
        elif o != base:
            return [{"kind": "nondeterministic", "step": -1, "at": None, "detail": "two in-process runs of the same case differ"}]
    return []


PROPS = {
    "C01": {
        "flavors": ["sync", "async"],
        "streams": [("core", "sync", 200), ("history", "sync", 120), ("histdirected", "sync", 80), ("done", "sync", 80), ("loops", "sync", 80),
                    ("actions", "sync", 80), ("core", "async", 150), ("history", "async", 80), ("histdirected", "async", 60),
                    ("loops", "async", 60), ("faults", "async", 60)],
        "oracles": [oracles.c01_legal],
        "thorough_scale": 10,
    },
    "C02": {
        "flavors": ["sync", "async"],
        "streams": [("select", "sync", 250), ("core", "sync", 100), ("descr", "sync", 100), ("select", "async", 150), ("actions", "async", 60)],
        "oracles": [oracles.c02_selection],
        "thorough_scale": 10,
    },
    "C03": {
        "flavors": ["sync", "async"],
        "streams": [("core", "sync", 200), ("history", "sync", 100), ("done", "sync", 60), ("actions", "sync", 60),
                    ("core", "async", 120), ("history", "async", 60), ("select", "async", 60)],
        "oracles": [oracles.c03_order_accounting],
        "thorough_scale": 10,
    },
    "C05": {
        "flavors": ["sync", "async"],
        "streams": [("core", "sync", 60), ("core", "async", 60)],
        "oracles": [],
        "q_checks": [_lazy2("c05_cross_engine"), _lazy2("c05_pure")],
        "thorough_scale": 6,
    },
    "C06": {
        "flavors": ["sync", "async"],
        "streams": [("select", "sync", 150), ("select", "async", 80)],
        "oracles": [oracles.c02_selection],
        "q_checks": [_lazy("c06_guard_eval"), _lazy("c06_guard_parse"), _lazy("c06_param_guards")],
        "thorough_scale": 8,
    },
    "C07": {
        "flavors": ["sync", "async"],
        "streams": [("faults", "sync", 150), ("faults", "async", 150)],
        "oracles": [oracles.c01_legal, _c07_builtin],
        "q_checks": [_lazy2("c07_twin"), _lazy2("c07_builtin_cases"), _lazy2("c07_rearm")],
        "thorough_scale": 6,
    },
    "C10": {
        "flavors": ["sync", "async"],
        "streams": [("done", "sync", 250), ("loops", "sync", 80), ("core", "sync", 80), ("done", "async", 150), ("loops", "async", 60)],
        "oracles": [oracles.c10_completion, oracles.c10_ondone, oracles.c10_ondone_raised],
        "thorough_scale": 10,
    },
    "C11": {
        "flavors": ["sync", "async"],
        "streams": [("histdirected", "sync", 300), ("history", "sync", 200), ("core", "sync", 60), ("histdirected", "async", 150),
                    ("history", "async", 100)],
        "oracles": [oracles.c11_history],
        "thorough_scale": 10,
    },
    "C13": {
        "flavors": ["sync", "async"],
        "streams": [("loops", "sync", 250), ("loops", "async", 250), ("done", "async", 100), ("actions", "async", 60)],
        "oracles": [oracles.c01_legal],
        "hang_is_violation": True,
        "thorough_scale": 8,
    },
    "C16": {
        "flavors": ["sync", "async"],
        "streams": [("history", "sync", 60), ("history", "async", 60)],
        "oracles": [_c16_replay_monitor],
        "oracles_on_replay_only": True,
        "q_checks": [_lazy2("c16_determinism")],
        "thorough_scale": 5,
    },
    "C20": {
        "flavors": ["sync", "async"],
        "streams": [("descr", "sync", 250), ("descr", "async", 100)],
        "oracles": [oracles.c02_selection],
        "q_checks": [_lazy("c20_match")],
        "thorough_scale": 8,
    },
}


# named predicates over (problem, minimised case, flavor) used by known_findings.json -------------
def _root_has_ondone(prob, case, flavor):
    return prob.get("kind") == "not-completed" and bool(case["machine"].get("onDone"))


def _shadowed_done(prob, case, flavor):
    return prob.get("kind") == "done-event-missing" and bool(prob.get("shadowed_by"))


def _left_final_same_event(prob, case, flavor):
    return prob.get("kind") == "done-without-final" and prob.get("final_was_entered_in_step") is True


def _pure_forgets_history(prob, case, flavor):
    return prob.get("kind") == "pure-api-disagrees" and prob.get("uses_history") is True


def _pure_revives_done(prob, case, flavor):
    return prob.get("kind") == "pure-api-disagrees" and prob.get("after_done") is True


def _pure_skips_builtins(prob, case, flavor):
    return prob.get("kind") == "pure-api-disagrees" and prob.get("has_builtin_followups") is True


CLASSIFIERS = {
    "pure-api-forgets-history": _pure_forgets_history,
    "pure-api-revives-finished-machine": _pure_revives_done,
    "pure-api-does-not-process-raise-or-choose": _pure_skips_builtins,
    "completed-then-left-final-in-same-event": _left_final_same_event,
    "root-declares-onDone": _root_has_ondone,
    "outer-done-shadowed-by-nearer-onDone": _shadowed_done,
}


def _replay_pure(case):
    from . import multichecks
    st, obs = __import__("xsmverif.core", fromlist=["x"])._impl_worker(("sync", case, 10))
    s2, pr = multichecks._pure_worker(case)
    if st != "ok" or s2 != "ok":
        return [{"kind": "pure-api-crash", "detail": f"{st} {s2}"}]
    return multichecks.pure_compare(case, obs, pr)


REPLAY_RUNNERS = {"pure": _replay_pure}
