"""Per-property exploration specs, monitors and known-finding classifiers."""
from __future__ import annotations
from . import oracles

ASSUMPTIONS = {
    "*": [
        "user actions/guards are functions of (context, event) that touch the interpreter only through documented effects",
        "the hand-written Lean model corresponds to the code on every case explored by this run (checked, not proved)",
        "generator coverage bounds what the correspondence check can see (feature histogram in coverage)",
    ],
}


def _hang_problem(ist):
    return [{"kind": "hang", "step": -1, "at": None, "detail": "implementation did not return within the watchdog"}]


def run_oracles(prop, case, ist, iobs, flavor, replay=False):
    """problems found by the monitors of `prop` on one implementation run"""
    spec = PROPS[prop]
    if spec.get("oracles_on_replay_only") and not replay:
        return []
    if ist == "hang":
        return _hang_problem(ist) if spec.get("hang_is_violation") else []
    if ist == "crash":
        if not spec.get("crash_is_violation") or (spec.get("crash_filter") and not spec["crash_filter"](iobs)):
            return []
        return [{"kind": "raw-exception", "step": -1, "at": None, "detail": str(iobs)}]
    out = []
    for fn in spec["oracles"]:
        out.extend(fn(case, iobs, flavor))
    return out


def _lazy(name):
    def f(tier, seed):
        from . import qchecks
        return getattr(qchecks, name)(tier, seed)
    f.__name__ = name
    return f


def _lazy2(name):
    def f(tier, seed):
        from . import multichecks
        return getattr(multichecks, name)(tier, seed)
    f.__name__ = name
    return f


def _lazy18(name):
    def f(tier, seed):
        from . import c18
        return getattr(c18, name)(tier, seed)
    f.__name__ = name
    return f


def _c18_is_raw(iobs):
    """impl.run_guarded reports ANY exception escaping create_machine/start/send as `RAW:<Class>: msg`; for C18 a
    library error (XStateMachineError subclass) at that point is the CORRECT outcome, only other classes are raw"""
    import xstate_statemachine.exceptions as ex
    lib = {n for n, c in vars(ex).items() if isinstance(c, type) and issubclass(c, ex.XStateMachineError)}
    s = str(iobs)
    if not s.startswith("RAW:"):
        return True
    return s[4:].split(":", 1)[0].strip() not in lib


def _c07_builtin(case, obs, flavor):
    from . import multichecks
    return multichecks.c07_builtin_failure(case, obs, flavor)


def _c16_replay_monitor(case, obs, flavor):
    """used only to replay a C16 finding in-process: rebuild and rerun the case several times"""
    from . import impl
    base = None
    for k in range(12):
        junk = [object() for _ in range(k * 37)]
        st, o = impl.run_guarded(flavor if flavor in ("sync", "async") else "sync", case, 8)
        if base is None:
            base = o
        elif o != base:
            return [{"kind": "nondeterministic", "step": -1, "at": None, "detail": "two in-process runs of the same case differ"}]
    return []


PROPS = {
    "C01": {
        "flavors": ["sync", "async"],
        "streams": [("core", "sync", 200), ("history", "sync", 120), ("histdirected", "sync", 80), ("done", "sync", 80), ("loops", "sync", 80),
                    ("actions", "sync", 80), ("core", "async", 150), ("history", "async", 80), ("histdirected", "async", 60),
                    ("loops", "async", 60), ("faults", "async", 60), ("parallways", "sync", 80), ("parallways", "async", 80)],
        "oracles": [oracles.c01_legal],
        "thorough_scale": 10,
    },
    "C02": {
        "flavors": ["sync", "async"],
        "streams": [("select", "sync", 250), ("core", "sync", 100), ("descr", "sync", 100), ("select", "async", 150), ("actions", "async", 60)],
        "oracles": [oracles.c02_selection],
        "thorough_scale": 10,
    },
    "C03": {
        "flavors": ["sync", "async"],
        "streams": [("core", "sync", 200), ("history", "sync", 100), ("done", "sync", 60), ("actions", "sync", 60),
                    ("core", "async", 120), ("history", "async", 60), ("select", "async", 60), ("probe", "sync", 60), ("probe", "async", 40)],
        "oracles": [oracles.c03_order_accounting],
        "thorough_scale": 10,
    },
    "C05": {
        "flavors": ["sync", "async"],
        "streams": [("core", "sync", 60), ("core", "async", 60), ("parallways", "sync", 60), ("parallways", "async", 80),
                    ("probe", "sync", 60), ("probe", "async", 60)],
        "oracles": [],
        "q_checks": [_lazy2("c05_cross_engine"), _lazy2("c05_pure")],
        "thorough_scale": 6,
    },
    "C06": {
        "flavors": ["sync", "async"],
        "streams": [("select", "sync", 150), ("select", "async", 80)],
        "oracles": [oracles.c02_selection],
        "q_checks": [_lazy("c06_guard_eval"), _lazy("c06_guard_parse"), _lazy("c06_param_guards")],
        "thorough_scale": 8,
    },
    "C07": {
        "flavors": ["sync", "async"],
        "streams": [("faults", "sync", 150), ("faults", "async", 150)],
        "oracles": [oracles.c01_legal, _c07_builtin],
        "q_checks": [_lazy2("c07_twin"), _lazy2("c07_builtin_cases"), _lazy2("c07_rearm")],
        "thorough_scale": 6,
    },
    "C10": {
        "flavors": ["sync", "async"],
        "streams": [("done", "sync", 250), ("loops", "sync", 80), ("core", "sync", 80), ("done", "async", 150), ("loops", "async", 60)],
        "oracles": [oracles.c10_completion, oracles.c10_ondone, oracles.c10_ondone_raised],
        "thorough_scale": 10,
    },
    "C11": {
        "flavors": ["sync", "async"],
        "streams": [("histdirected", "sync", 300), ("history", "sync", 200), ("core", "sync", 60), ("histdirected", "async", 150),
                    ("history", "async", 100)],
        "oracles": [oracles.c11_history],
        "thorough_scale": 10,
    },
    "C13": {
        "flavors": ["sync", "async"],
        "streams": [("loops", "sync", 250), ("loops", "async", 250), ("done", "async", 100), ("actions", "async", 60),
                    ("loopfaults", "async", 200), ("loopfaults", "sync", 80)],
        "oracles": [oracles.c01_legal, oracles.c13_short_chain_not_cut, oracles.c13_queue_growth],
        "hang_is_violation": True,
        "thorough_scale": 8,
    },
    "C16": {
        "flavors": ["sync", "async"],
        "streams": [("history", "sync", 60), ("history", "async", 60)],
        "oracles": [_c16_replay_monitor],
        "oracles_on_replay_only": True,
        "q_checks": [_lazy2("c16_determinism")],
        "thorough_scale": 5,
    },
    "C18": {
        # config front end: everything is in the q_checks (harness/xsmverif/c18.py); the replays of the open
        # findings run through the ordinary sync runner, where a raw exception escaping the API is a crash
        "flavors": ["sync"],
        "streams": [],
        "oracles": [],
        "crash_is_violation": True,
        "crash_filter": _c18_is_raw,
        "q_checks": [_lazy18("c18_spellings"), _lazy18("c18_targets"), _lazy18("c18_corruptions")],
        "lake_targets": ["driver_c18"],
        "thorough_scale": 8,
    },
    "C20": {
        "flavors": ["sync", "async"],
        "streams": [("descr", "sync", 250), ("descr", "async", 100)],
        "oracles": [oracles.c02_selection],
        "q_checks": [_lazy("c20_match")],
        "thorough_scale": 8,
    },
}


# named predicates over (problem, minimised case, flavor) used by known_findings.json -------------
def _root_has_ondone(prob, case, flavor):
    return prob.get("kind") == "not-completed" and bool(case["machine"].get("onDone"))


def _shadowed_done(prob, case, flavor):
    return prob.get("kind") == "done-event-missing" and bool(prob.get("shadowed_by"))


def _left_final_same_event(prob, case, flavor):
    return prob.get("kind") == "done-without-final" and prob.get("final_was_entered_in_step") is True


def _pure_forgets_history(prob, case, flavor):
    return prob.get("kind") == "pure-api-disagrees" and prob.get("uses_history") is True


def _pure_revives_done(prob, case, flavor):
    return prob.get("kind") == "pure-api-disagrees" and prob.get("after_done") is True


def _pure_skips_builtins(prob, case, flavor):
    return prob.get("kind") == "pure-api-disagrees" and prob.get("has_builtin_followups") is True


def _raw_site(message_re, *sites):
    """a raw (non-library) exception escaping the API whose innermost library frame is one of `sites`
    (`<ExceptionClass>@<file>:<qualified function>`) and whose message (concrete values blanked) matches
    `message_re` — as reported by c18.c18_corruptions"""
    import re
    rx = re.compile(message_re)

    def f(prob, case, flavor):
        return prob.get("kind") == "raw-exception" and prob.get("site") in sites and bool(rx.search(prob.get("message", "")))
    return f


CLASSIFIERS = {
    "pure-api-forgets-history": _pure_forgets_history,
    "pure-api-revives-finished-machine": _pure_revives_done,
    "pure-api-does-not-process-raise-or-choose": _pure_skips_builtins,
    "completed-then-left-final-in-same-event": _left_final_same_event,
    "c18-raw-site:non-dict-config": _raw_site(r"object has no attribute _$", "AttributeError@factory.py:create_machine"),
    "c18-raw-site:maxIterations": _raw_site(r"int\(\)", "TypeError@models.py:MachineNode.__init__", "ValueError@models.py:MachineNode.__init__"),
    "c18-raw-site:non-string-target": _raw_site(r"^Transition target must be a string", "TypeError@resolver.py:resolve_target_state"),
    "c18-raw-site:non-string-action-type": _raw_site(r"object has no attribute _$", "AttributeError@sync_interpreter.py:SyncInterpreter._execute_actions"),
    "c18-raw-site:guard-operands-not-a-list": _raw_site(r"object is not iterable$", "TypeError@models.py:GuardDefinition.__init__"),
    "c18-raw-site:states-not-a-dict": _raw_site(r"object has no attribute _$", "AttributeError@models.py:StateNode._parse_initial"),
    "c18-raw-site:unhashable-invoke-src": _raw_site(r"^unhashable type", "TypeError@base_interpreter.py:BaseInterpreter._schedule_state_tasks"),
    "root-declares-onDone": _root_has_ondone,
    "outer-done-shadowed-by-nearer-onDone": _shadowed_done,
}


def _replay_pure(case):
    from . import multichecks
    st, obs = __import__("xsmverif.core", fromlist=["x"]).impl_isolated(("sync", case, 10))
    s2, pr = multichecks._pure_worker(case)
    if st != "ok" or s2 != "ok":
        return [{"kind": "pure-api-crash", "detail": f"{st} {s2}"}]
    return multichecks.pure_compare(case, obs, pr)


REPLAY_RUNNERS = {"pure": _replay_pure}


# checks that live in their own modules register themselves here
from . import registry_ext as _registry_ext  # noqa: E402
_registry_ext.register(PROPS, CLASSIFIERS, REPLAY_RUNNERS)
