"""Structured generator of machine configs, logic valuations and event sequences.

Every random choice derives from one `random.Random(seed)`; a case is a plain JSON
object so that it can be written to a replay file and re-run exactly.

    case = {"id": str, "machine": <config>, "guards": {name: "t"|"f"|"r"},
            "events": [str, ...], "features": [str, ...]}

Action names carry their meaning (the Recorder logic of impl.py and the Lean driver
interpret the same names):
    en:<path> ex:<path> tr:<...> done:<...> alw:<...>   plain marker actions
Built-in `xstate.raise` actions are plain JSON.
"""
from __future__ import annotations
import random, json, copy

EVENTS = ["A", "B", "C", "D"]
GUARDS = ["g0", "g1", "g2", "g3"]


class Knobs:
    """feature probabilities; `profile` picks a preset"""

    def __init__(self, **kw):
        self.max_depth = 3
        self.max_kids = 3
        self.p_leaf = 0.45
        self.p_parallel = 0.3
        self.p_final = 0.15
        self.p_history = 0.35
        self.hist_under_parallel = True
        self.p_on = 0.35
        self.p_target = 0.8
        self.p_reenter = 0.3
        self.p_guard = 0.3
        self.p_composite_guard = 0.25
        self.p_statein = 0.15
        self.p_ondone = 0.4
        self.p_always = 0.12
        self.p_raise = 0.12
        self.p_raise_burst = 0.0    # a raising action list raises a SECOND event (events queued behind one another)
        self.p_root_target = 0.04
        self.p_history_target = 0.15
        self.p_relative_target = 0.2
        self.p_wildcard = 0.0
        self.p_forbidden = 0.0
        self.p_final_in_region = 0.5
        self.p_overlap_names = 0.3  # per machine: sibling keys that are string prefixes of one another
        self.p_ctx = 0.0            # context-updating marker actions / context guards
        self.p_fail = 0.0           # actions that raise
        self.p_missing = 0.0        # actions with no implementation
        self.p_assign = 0.0         # built-in assign with a literal mapping
        self.p_choose = 0.0         # built-in choose
        self.p_async_action = 0.0
        self.p_probe = 0.0          # entry / exit lists that LOOK at the configuration (`choose` on `stateIn`: self, parent, another state)
        self.max_iterations = 25
        self.n_events = 8
        self.events = list(EVENTS)
        self.__dict__.update(kw)


PROFILES = {
    "core": {},
    "history": {"p_history": 0.8, "p_history_target": 0.5, "p_parallel": 0.4, "p_always": 0.05, "n_events": 10},
    "done": {"p_final": 0.45, "p_ondone": 0.8, "p_parallel": 0.45, "p_history": 0.1, "p_leaf": 0.35,
             "p_raise": 0.3, "p_raise_burst": 0.6},
    "select": {"p_on": 0.7, "p_guard": 0.6, "p_parallel": 0.45, "p_composite_guard": 0.3, "p_always": 0.05,
               "p_wildcard": 0.15, "p_forbidden": 0.1},
    "loops": {"p_always": 0.45, "p_raise": 0.4, "p_ondone": 0.6, "p_final": 0.3, "max_iterations": 6, "p_guard": 0.45},
    # self-raise chains whose members can FAIL (missing / raising actions) and short bounds: what is left of the
    # chain bookkeeping after a failed macrostep
    "loopfaults": {"p_always": 0.2, "p_raise": 0.55, "p_raise_burst": 0.2, "p_ondone": 0.4, "p_final": 0.2, "max_iterations": 4,
                   "p_guard": 0.3, "p_fail": 0.15, "p_missing": 0.15, "p_ctx": 0.2, "n_events": 10, "p_on": 0.5},
    # parallel regions whose eventless transitions are enabled in the SAME microstep and invalidate one another
    # (one region's `always` leaves the parallel state while another region's `always` moves inside it)
    "parallways": {"p_parallel": 0.75, "p_always": 0.5, "p_guard": 0.15, "p_leaf": 0.3, "p_history": 0.1, "p_final": 0.1,
                   "p_on": 0.3, "p_raise": 0.1, "n_events": 5, "max_iterations": 5},
    "actions": {"p_ctx": 0.35, "p_fail": 0.12, "p_assign": 0.2, "p_choose": 0.2, "p_raise": 0.15, "p_guard": 0.4,
                "p_always": 0.15, "p_parallel": 0.3},
    "faults": {"p_ctx": 0.2, "p_fail": 0.3, "p_missing": 0.08, "p_assign": 0.1, "p_choose": 0.15, "p_async_action": 0.05,
               "p_raise": 0.1},
    # entry and exit action lists that read the active configuration while a transition is under way: which of the states
    # being exited / entered are (still / already) active when each list runs
    "probe": {"p_probe": 0.6, "p_parallel": 0.45, "p_history": 0.2, "p_leaf": 0.4, "p_always": 0.05, "p_on": 0.5},
    "descr": {"p_wildcard": 0.5, "p_forbidden": 0.25, "p_on": 0.6, "events": ["a", "a.b", "a.b.c", "b", "a.c", "done.x", "xstate.q", "error.e", "after.1"],
              "p_always": 0.03, "p_raise": 0.05},
}


def knobs_for(profile: str) -> Knobs:
    return Knobs(**PROFILES.get(profile, {}))


def node_at(cfg, path):
    n = cfg
    for k in path:
        n = n["states"][k]
    return n


def gen_tree(rng: random.Random, kn: Knobs):
    counter = [0]
    paths = []  # non-root state paths in document order (incl. history nodes)
    overlap = rng.random() < kn.p_overlap_names

    def mk(depth, path, parent_parallel):
        counter[0] += 1
        my = counter[0]
        if depth >= kn.max_depth or (depth > 0 and rng.random() < kn.p_leaf):
            p_fin = kn.p_final * (kn.p_final_in_region if parent_parallel else 1.0)
            if rng.random() < p_fin and depth > 0:
                return {"type": "final"}
            return {}
        par = rng.random() < kn.p_parallel
        n = rng.randint(1, kn.max_kids)
        kids = {}
        if overlap and rng.random() < 0.7:
            # keys that are string prefixes of their siblings (zone / zone2, r1 / r10): id-prefix tests
            # must not confuse them with descendants
            base = rng.choice(["z", "zone", "r1", "ab", "q"])
            # ... and keys that are string SUFFIXES of a sibling (zone / xzone): `stateIn zone` names whole segments
            pool = [base, base + "2", base + "20", base + "x", base[:1] + "_" + base, "x" + base]
            keys = rng.sample(pool, n)
        else:
            keys = [f"s{my}_{i}" for i in range(n)]
        for k in keys:
            paths.append(path + [k])
            kids[k] = mk(depth + 1, path + [k], par)
        st = {"states": kids}
        if par:
            st["type"] = "parallel"
        else:
            nonfinal = [k for k in keys if kids[k].get("type") != "final"] or keys
            st["initial"] = rng.choice(nonfinal if rng.random() < 0.8 else keys)
        if rng.random() < kn.p_history and (kn.hist_under_parallel or not par):
            hk = f"h{my}"
            h = {"type": "history", "history": rng.choice(["shallow", "deep"])}
            kids[hk] = h
            paths.append(path + [hk])
            if rng.random() < 0.3:
                h["_want_default"] = True
            if kn.p_history >= 0.5 and rng.random() < 0.3:
                # a parent may declare BOTH kinds of history child; they share one record
                other = {"type": "history", "history": "deep" if h["history"] == "shallow" else "shallow"}
                if rng.random() < 0.5:
                    kids[hk + "b"] = other
                    paths.append(path + [hk + "b"])
                else:           # declared BEFORE the first one
                    first = kids.pop(hk)
                    paths.pop()
                    kids[hk + "a"] = other
                    kids[hk] = first
                    paths.append(path + [hk + "a"])
                    paths.append(path + [hk])
        return st

    root = mk(0, [], False)
    cfg = {"id": "m", **root}
    return cfg, paths


def _abs(p):
    return "#m" + "".join("." + k for k in p)


def _target_spelling(rng, kn, src, tgt):
    """a spelling of `tgt` as seen from the transition's source `src` (both key paths)"""
    if tgt and src and rng.random() < kn.p_relative_target:
        # sibling key / dotted path from the source's parent
        par = src[:-1]
        if tgt[: len(par)] == par and len(tgt) > len(par):
            return ".".join(tgt[len(par):])
        # child of the source: leading-dot relative is resolved against the source's parent too
    return _abs(tgt)


def gen_guard(rng, kn, paths, depth=0):
    r = rng.random()
    if depth < 2 and r < kn.p_composite_guard:
        op = rng.choice(["and", "or", "not"])
        if op == "not":
            child = gen_guard(rng, kn, paths, depth + 1)
            return rng.choice([
                {"type": "not", "children": [child]},
                {"type": "not", "params": {"guard": child}},
                {"type": "not", "params": {"guards": [child]}},
            ])
        kids = [gen_guard(rng, kn, paths, depth + 1) for _ in range(rng.randint(1, 3))]
        key = rng.choice(["children", "guards", "pchildren"])
        if key == "children":
            return {"type": op, "children": kids}
        if key == "guards":
            return {"type": op, "params": {"guards": kids}}
        return {"type": op, "params": {"children": kids}}
    if r < kn.p_composite_guard + kn.p_statein and paths:
        p = rng.choice(paths)
        # full id with / without '#', or only the last one or two segments (a relative name)
        spell = rng.choice([_abs(p), _abs(p)[1:], _abs(p)[1:], ".".join(p[-1:]), ".".join(p[-2:])])
        return {"type": "stateIn", "params": rng.choice([{"state": spell}, {"value": spell}])}
    g = rng.choice(GUARDS)
    return g if rng.random() < 0.7 else {"type": g}


def decorate(rng: random.Random, kn: Knobs, cfg, paths):
    feats = set()
    allp = [[]] + paths
    real = [p for p in paths if node_at(cfg, p).get("type") != "history"]
    hist = [p for p in paths if node_at(cfg, p).get("type") == "history"]

    def pick_target(src):
        r = rng.random()
        if r < kn.p_root_target:
            feats.add("target:root")
            return []
        if hist and r < kn.p_root_target + kn.p_history_target:
            feats.add("target:history")
            return rng.choice(hist)
        return rng.choice(real) if real else []

    def raise_action():
        feats.add("raise")
        ev = rng.choice(kn.events)
        return {"type": rng.choice(["xstate.raise", "raise"]), "params": {"event": rng.choice([{"type": ev}, ev])}}

    CTXK = ["a", "b", "c"]
    xc = [0]

    def ctx_guard():
        return f"{rng.choice(['lt', 'ge', 'eq'])}:{rng.choice(CTXK)}:{rng.randint(0, 4)}"

    def extra_actions(depth=0):
        """context / failing / missing / built-in actions appended after a list's marker action"""
        out = []
        if rng.random() < kn.p_ctx:
            k = rng.choice(CTXK)
            out.append(rng.choice([f"inc:{k}", f"set:{k}:{rng.randint(0, 4)}"]))
            feats.add("ctx-action")
        if rng.random() < kn.p_assign:
            out.append({"type": rng.choice(["assign", "xstate.assign"]),
                        "params": {"assignment": {rng.choice(CTXK): rng.randint(0, 5)}}})
            feats.add("assign")
        if rng.random() < kn.p_choose and depth < 2:
            xc[0] += 1
            conds = []
            for bi in range(rng.randint(1, 3)):
                br = {"actions": [f"ch:{xc[0]}:{bi}"] + extra_actions(depth + 1)}
                if bi == 0 or rng.random() < 0.7:
                    br[rng.choice(["guard", "cond"])] = rng.choice([gen_guard(rng, kn, real), ctx_guard()])
                if rng.random() < 0.15:
                    br["actions"] = br["actions"][0]
                conds.append(br)
            out.append({"type": rng.choice(["choose", "xstate.choose"]), "params": {"conditions": conds}})
            feats.add("choose")
        if rng.random() < kn.p_fail:
            xc[0] += 1
            out.insert(rng.randint(0, len(out)), f"fail:{xc[0]}")
            feats.add("failing-action")
        if rng.random() < kn.p_missing:
            xc[0] += 1
            out.insert(rng.randint(0, len(out)), f"missing:{xc[0]}")
            feats.add("missing-action")
        if rng.random() < kn.p_async_action:
            xc[0] += 1
            out.append(f"async:{xc[0]}")
            feats.add("async-action")
        if out and rng.random() < 0.5:
            xc[0] += 1
            out.append(f"x:{xc[0]}")         # a marker after the special ones: shows whether the list went on
        return out

    any_extra = kn.p_ctx + kn.p_fail + kn.p_missing + kn.p_assign + kn.p_choose + kn.p_async_action > 0
    if kn.p_ctx > 0 or kn.p_assign > 0:
        cfg["context"] = {k: rng.randint(0, 2) for k in CTXK}

    for p in allp:
        n = node_at(cfg, p)
        tag = ".".join(p)
        if n.get("type") == "history":
            if n.pop("_want_default", False):
                par = p[:-1]
                below = [q for q in real if q[: len(par)] == par and len(q) > len(par)]
                if below:
                    n["target"] = _target_spelling(rng, kn, p, rng.choice(below))
                    feats.add("history:default")
            feats.add("history:" + n["history"] + (":par" if node_at(cfg, p[:-1]).get("type") == "parallel" else ":cmp"))
            continue
        n["entry"] = [f"en:{tag}"] + (extra_actions() if any_extra and rng.random() < 0.4 else [])
        n["exit"] = [f"ex:{tag}"] + (extra_actions() if any_extra and rng.random() < 0.3 else [])
        if kn.p_probe > 0 and p and rng.random() < kn.p_probe:
            def probe(phase):
                seen = [p] + ([p[:-1]] if len(p) > 1 else []) + ([rng.choice(real)] if real else [])
                return [{"type": rng.choice(["choose", "xstate.choose"]), "params": {"conditions": [
                    {"guard": {"type": "stateIn", "params": {"state": _abs(q)}}, "actions": [f"pr:{phase}:{tag}:{j}:in"]},
                    {"actions": [f"pr:{phase}:{tag}:{j}:out"]}]}} for j, q in enumerate(seen)]
            n["exit"] = n["exit"] + probe("x")
            if rng.random() < 0.5:
                n["entry"] = n["entry"] + probe("e")
            feats.add("probe")
        if rng.random() < kn.p_raise * 0.5:
            n["entry"].append(raise_action())
        if n.get("type") == "final":
            feats.add("final")
            continue
        if n.get("type") == "parallel":
            feats.add("parallel")
        on = {}
        evs = list(kn.events)
        if rng.random() < kn.p_wildcard:
            evs = evs + rng.sample(["*", "a.*", "a.b.*", "b.*"], rng.randint(1, 3))
            feats.add("wildcard")
        for ev in evs:
            if rng.random() < kn.p_on:
                if rng.random() < kn.p_forbidden:
                    on[ev] = None
                    feats.add("forbidden")
                    continue
                cands = []
                for _ in range(rng.randint(1, 3) if rng.random() < 0.4 else 1):
                    t = {}
                    if rng.random() < kn.p_target:
                        tp = pick_target(p)
                        t["target"] = _target_spelling(rng, kn, p, tp) if tp else "#m"
                        if rng.random() < kn.p_reenter:
                            t["reenter"] = True
                            feats.add("reenter")
                    else:
                        feats.add("targetless")
                    t["actions"] = [f"tr:{tag}:{ev}:{len(cands)}"] + (extra_actions() if any_extra else [])
                    if rng.random() < kn.p_raise:
                        t["actions"].append(raise_action())
                        if kn.p_raise_burst > 0 and rng.random() < kn.p_raise_burst:
                            t["actions"].append(raise_action())
                            feats.add("raise-burst")
                    if rng.random() < kn.p_guard:
                        t[rng.choice(["guard", "guard", "cond"])] = (ctx_guard() if kn.p_ctx > 0 and rng.random() < 0.4
                                                                     else gen_guard(rng, kn, real))
                        feats.add("guard")
                    cands.append(t)
                if len(cands) > 1:
                    on[ev] = cands
                    feats.add("multi-candidate")
                else:
                    c = cands[0]
                    on[ev] = c if rng.random() < 0.7 else [c]
        if on:
            n["on"] = on
        if "states" in n and rng.random() < kn.p_ondone:
            od = {"actions": [f"done:{tag}"]}
            if rng.random() < 0.6 and p != []:
                od["target"] = _abs(pick_target(p))
            if rng.random() < 0.2:
                od["guard"] = rng.choice(GUARDS)
            n["onDone"] = od
            feats.add("onDone")
        if rng.random() < kn.p_always and p != []:
            a = {"actions": [f"alw:{tag}"]}
            if rng.random() < 0.85:
                a["target"] = _abs(pick_target(p))
            a["guard"] = gen_guard(rng, kn, real)
            if rng.random() < 0.5:
                n["always"] = a
            else:
                n.setdefault("on", {})[""] = a
            feats.add("always")
    return sorted(feats)


def gen_hist_directed(rng):
    """directed C11 scenario: an owner (compound or parallel) with a history child, an outside state that
    targets the history node, inner walks that leave regions in atomic / final / nested leaves"""
    feats = set()

    def leafset(tag, depth):
        n = rng.randint(2, 3)
        keys = [f"{tag}{i}" for i in range(n)]
        kids = {}
        for i, k in enumerate(keys):
            if depth < 1 and rng.random() < 0.3:
                sub_keys, sub = leafset(k + "_", depth + 1)
                kids[k] = {"initial": sub_keys[0], "states": sub}
            elif i == n - 1 and rng.random() < 0.5:
                kids[k] = {"type": "final"}
                feats.add("final")
            else:
                kids[k] = {}
        return keys, kids

    def region(tag):
        keys, kids = leafset(tag, 0)
        st = {"initial": keys[0], "states": kids}
        return st

    par = rng.random() < 0.6
    deep = rng.random() < 0.6
    hist = {"type": "history", "history": "deep" if deep else "shallow"}
    if par:
        regs = {f"r{i}": region(f"r{i}x") for i in range(rng.randint(2, 3))}
        owner = {"type": "parallel", "states": {**regs, "h": hist}}
        feats.add("history:" + hist["history"] + ":par")
    else:
        owner = region("c")
        owner["states"]["h"] = hist
        feats.add("history:" + hist["history"] + ":cmp")
    # sometimes the owner declares BOTH kinds of history child (they share one record); `h` stays the one targeted
    # by BACK, the other one (`g`) is declared before or after it and is targeted by BACK2
    dual = rng.random() < 0.4
    if dual:
        other = {"type": "history", "history": "shallow" if deep else "deep"}
        st = owner["states"]
        h = st.pop("h")
        if rng.random() < 0.5:
            st["g"] = other
            st["h"] = h
        else:
            st["h"] = h
            st["g"] = other
        feats.add("history:dual")
    cfg = {"id": "m", "initial": rng.choice(["o", "P"]), "states": {"o": {"on": {"BACK": "#m.P.h", "IN": "#m.P"}}, "P": owner}}
    if dual:
        cfg["states"]["o"]["on"]["BACK2"] = "#m.P.g"
    owner.setdefault("on", {})["OUT"] = "#m.o"
    # default target sometimes
    paths = []

    def walk(n, path):
        for k, c in (n.get("states") or {}).items():
            paths.append(path + [k])
            walk(c, path + [k])
    walk(cfg, [])
    inner = [p for p in paths if p[:1] == ["P"] and len(p) > 1 and node_at(cfg, p).get("type") != "history"]
    if rng.random() < 0.3:
        hist["target"] = _abs(rng.choice(inner))
        feats.add("history:default")
    # inner moves: events M0..M3 declared on leaves / regions, targets inside the same owner
    evs = ["M0", "M1", "M2", "M3"]
    for p in inner:
        n = node_at(cfg, p)
        if n.get("type") == "final":
            continue
        for ev in evs:
            if rng.random() < 0.35:
                sibs = [q for q in inner if q[:-1] == p[:-1] and q != p]
                if sibs:
                    n.setdefault("on", {})[ev] = {"target": _abs(rng.choice(sibs)), "actions": [f"tr:{'.'.join(p)}:{ev}:0"]}
    for p in [[]] + paths:
        n = node_at(cfg, p)
        if n.get("type") == "history":
            continue
        tag = ".".join(p)
        n["entry"] = [f"en:{tag}"]
        n["exit"] = [f"ex:{tag}"]
        for ev, t in list((n.get("on") or {}).items()):
            if isinstance(t, str):
                n["on"][ev] = {"target": t, "actions": [f"tr:{tag}:{ev}:0"]}
    events = []
    for _ in range(rng.randint(1, 3)):
        events += [rng.choice(evs) for _ in range(rng.randint(0, 4))]
        events += rng.choice([["OUT", "BACK"], ["OUT", "IN"], ["OUT", "BACK"], ["OUT", "M1", "BACK"]] +
                             ([["OUT", "BACK2"], ["OUT", "BACK2"], ["OUT", "M2", "BACK2"]] if dual else []))
    feats.add("target:history")
    return cfg, events, sorted(feats)


def gen_case(seed: int, profile: str = "core", idx: int = 0):
    rng = random.Random((seed << 20) ^ (idx * 7919 + 13))
    if profile == "histdirected":
        cfg, events, feats = gen_hist_directed(rng)
        cfg["maxIterations"] = 25
        return {"id": f"{profile}-{seed}-{idx}", "machine": cfg, "guards": {}, "events": events, "features": feats}
    kn = knobs_for(profile)
    cfg, paths = gen_tree(rng, kn)
    feats = decorate(rng, kn, cfg, paths)
    cfg["maxIterations"] = kn.max_iterations
    events = [rng.choice(kn.events) for _ in range(kn.n_events)]
    if profile == "parallways" and rng.random() < 0.6 and cfg.get("states"):
        # the sharpest shape of the family, grafted under the root: on entering the parallel state `pw` two eventless
        # transitions are enabled in ONE microstep - region r1 leaves `pw` altogether, region r2 moves between siblings
        # inside r2. Whichever runs first invalidates the other (its source has been exited): the stale one must be skipped.
        tops = [k for k, v in cfg["states"].items() if v.get("type") != "history"]
        out = rng.choice(tops)
        g = rng.choice([None, "g1"])
        def alw(tag, target):
            t = {"actions": [f"alw:{tag}"], "target": target}
            if g:
                t["guard"] = g
            return t
        first, second = ("r1", "r2") if rng.random() < 0.5 else ("r2", "r1")
        cfg["states"]["pw"] = {"type": "parallel", "entry": ["en:pw"], "exit": ["ex:pw"], "states": {
            first: {"initial": "a", "entry": [f"en:pw.{first}"], "exit": [f"ex:pw.{first}"],
                    "states": {"a": {"entry": [f"en:pw.{first}.a"], "exit": [f"ex:pw.{first}.a"], "always": alw(f"pw.{first}.a", "#m." + out)}}},
            second: {"initial": "c", "entry": [f"en:pw.{second}"], "exit": [f"ex:pw.{second}"],
                     "states": {"c": {"entry": [f"en:pw.{second}.c"], "exit": [f"ex:pw.{second}.c"], "always": alw(f"pw.{second}.c", "d")},
                                "d": {"entry": [f"en:pw.{second}.d"], "exit": [f"ex:pw.{second}.d"]}}}}}
        cfg.setdefault("on", {})
        ev = rng.choice(kn.events)
        cfg["on"][ev] = {"target": "#m.pw", "actions": [f"tr::{ev}:pw"]}
        events[rng.randrange(len(events))] = ev
        feats = sorted(set(feats) | {"parallways-gadget"})
    gv = {}
    for g in GUARDS:
        r = rng.random()
        gv[g] = "t" if r < 0.55 else ("f" if r < 0.9 else "r")
    return {"id": f"{profile}-{seed}-{idx}", "machine": cfg, "guards": gv, "events": events, "features": feats}


if __name__ == "__main__":
    import sys
    c = gen_case(int(sys.argv[1]) if len(sys.argv) > 1 else 0, sys.argv[2] if len(sys.argv) > 2 else "core", 0)
    print(json.dumps(c, indent=1))
