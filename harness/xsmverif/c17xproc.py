"""C17, supplement: regeneration ACROSS PROCESSES.

"Regenerating from unchanged input is byte-identical, so `--check` reports no drift."  The CLI matrix of c17.py runs the
generator in-process, where two generations share one string-hash seed; anything that leaks set / dict-of-str iteration
order into the output is invisible there.  Here the real CLI is started as a subprocess three times per configuration
with three different PYTHONHASHSEED values: generate (seed 1), generate again into a fresh directory (seed 2) - every
written file must be byte-identical - and `--check` against the first output (seed 3) - must exit 0.

Machines: the per-construct family of c17gen plus shapes whose initial state can only be left by `after` / `always` /
an invocation (so that whatever the generator derives from the EVENT VOCABULARY rather than from a walk is exercised),
with several event names.
"""
from __future__ import annotations
import json
import os
import random
import shutil
import subprocess
import sys

from . import c17gen, core

SCRATCH = os.path.join(os.path.dirname(os.path.dirname(os.path.dirname(os.path.abspath(__file__)))), ".work", "c17x")


def _no_walk_machines():
    """initial state left only by after / always / invoke; many event names elsewhere"""
    evs = ["PLAY", "PAUSE", "STOP", "SEEK", "EJECT", "LOAD", "RESUME", "zeta", "alpha", "mid.dle", "Q1", "q2"]
    out = []
    for kind in ("after", "always", "invoke"):
        m = {"id": "player", "initial": "booting", "context": {"n": 0},
             "states": {"booting": {}, "ready": {"on": {e: {"actions": ["act" + str(i)]} for i, e in enumerate(evs[:7])}},
                        "busy": {"on": {e: "ready" for e in evs[7:]}}}}
        if kind == "after":
            m["states"]["booting"]["after"] = {"100": "ready"}
        elif kind == "always":
            m["states"]["booting"]["always"] = [{"target": "ready", "guard": "isUp"}]
        else:
            m["states"]["booting"]["invoke"] = {"src": "boot", "onDone": "ready", "onError": "busy"}
        out.append({"id": "nowalk-" + kind, "machine": m})
    return out


def _run_cli(args, hashseed, src):
    env = dict(os.environ, PYTHONHASHSEED=str(hashseed), PYTHONPATH=src)
    return subprocess.run([sys.executable, "-m", "xstate_statemachine.cli", *args], env=env, capture_output=True, text=True,
                          timeout=120, stdin=subprocess.DEVNULL)


def _files(d):
    out = {}
    if os.path.isdir(d):
        for f in sorted(os.listdir(d)):
            p = os.path.join(d, f)
            if os.path.isfile(p):
                with open(p, "rb") as fh:
                    out[f] = fh.read()
    return out


def _one(args):
    case, template, files, asy, idx = args
    import xstate_statemachine                 # the copy of the library this check runs against (see ./check: XSM_REPO_SRC)
    src = os.path.dirname(os.path.dirname(os.path.abspath(xstate_statemachine.__file__)))
    work = os.path.join(SCRATCH, "t%d" % idx)
    shutil.rmtree(work, ignore_errors=True)
    os.makedirs(work, exist_ok=True)
    jpath = os.path.join(work, "source.json")
    with open(jpath, "w", encoding="utf-8") as f:
        json.dump(case["machine"], f, ensure_ascii=False)
    key = {"case": case["id"], "template": template, "files": files, "async": asy}

    def gen(outdir, seed):
        return _run_cli(["generate-template", jpath, "-t", template, "-o", outdir, "-fc", str(files), "-am", "yes" if asy else "no"], seed, src)
    try:
        a, b = os.path.join(work, "a"), os.path.join(work, "b")
        r1 = gen(a, 1)
        if r1.returncode != 0:
            return key, "refused", []           # a refusal is judged by the CLI matrix, not here
        r2 = gen(b, 2)
        probs = []
        fa, fb = _files(a), _files(b)
        if r2.returncode != 0:
            probs.append({"kind": "regeneration-refused", "detail": f"second generation exits {r2.returncode}: {(r2.stdout + r2.stderr)[-200:]}"})
        elif fa != fb:
            diff = sorted(n for n in set(fa) | set(fb) if fa.get(n) != fb.get(n))
            first = diff[0]
            la, lb = (fa.get(first) or b"").splitlines(), (fb.get(first) or b"").splitlines()
            at = next((i for i, (x, y) in enumerate(zip(la, lb)) if x != y), min(len(la), len(lb)))
            probs.append({"kind": "regeneration-not-byte-identical",
                          "detail": f"{diff} differ between two generations from the same JSON (PYTHONHASHSEED 1 vs 2); {first} line {at + 1}: "
                                    f"{(la[at] if at < len(la) else b'')[:80]!r} vs {(lb[at] if at < len(lb) else b'')[:80]!r}"})
        r3 = _run_cli(["generate-template", jpath, "-t", template, "-o", a, "-fc", str(files), "-am", "yes" if asy else "no", "--check"], 3, src)
        if r3.returncode != 0:
            probs.append({"kind": "check-reports-drift-on-unchanged-input",
                          "detail": f"--check (PYTHONHASHSEED 3) exits {r3.returncode} on the output of the first generation: {(r3.stdout + r3.stderr)[-200:]}"})
        return key, "ok", probs
    except subprocess.TimeoutExpired:
        return key, "hang", []
    finally:
        shutil.rmtree(work, ignore_errors=True)


def c17_regen_across_processes(tier, seed):
    rng = random.Random(seed * 613 + 7)
    cases = _no_walk_machines()
    names = sorted(c17gen.FEATURES)
    pick = rng.sample(names, 6 if tier == "quick" else 30)
    cases += [c17gen.feature_case(n) for n in pick]
    T = list(c17gen.TEMPLATES)
    tasks = []
    for i, c in enumerate(cases):
        tpls = T if (tier == "thorough" or c["id"].startswith("nowalk")) else [T[i % len(T)], T[(i + 2) % len(T)]]
        for j, tpl in enumerate(tpls):
            tasks.append((c, tpl, 1 + (i + j) % 2, bool((i + j) % 3 == 0), len(tasks)))
    os.makedirs(SCRATCH, exist_ok=True)
    try:
        res = core.pool().map(_one, tasks, chunksize=1)
    finally:
        shutil.rmtree(SCRATCH, ignore_errors=True)
    fails, samples = [], []
    stats = {"ok": 0, "refused": 0, "hang": 0}
    for key, st, probs in res:
        stats[st] = stats.get(st, 0) + 1
        for p in probs:
            fails.append(dict(p, case=key))
        if st == "ok" and not probs and len(samples) < 2:
            samples.append(key)
    return {"evaluations": len(tasks), "nontrivial": stats["ok"], "ties": [], "fails": fails, "samples": samples, "exhaustive": False,
            "what": f"real CLI in three subprocesses with PYTHONHASHSEED 1 / 2 / 3 per configuration ({len(cases)} machines incl. three whose initial state is "
                    f"left only by after / always / invoke, x templates x file counts): second generation byte-identical, --check exits 0; {json.dumps(stats)}"}
