"""./check <Cnn> quick|thorough  — one entry point for every property.

Obligations checked on every run (DESIGN §5):
  P  `lake build Xsm.Properties.<Cnn>` + no sorry/axioms + `#print axioms` ⊆ allow-list
  T  correspondence: Lean driver vs. real engines on generated + corpus cases
  O  the property's monitor on every implementation observation
"""
from __future__ import annotations
import json, os, sys, time, collections, copy, random, traceback

from . import core, gen, modelio, oracles, props, shrink


def log(*a):
    print(*a, file=sys.stderr, flush=True)


def classify(finding, prob, case, flavor):
    """does an oracle problem match an OPEN known finding? (named predicates over the minimised case)"""
    fn = props.CLASSIFIERS.get(finding.get("classifier"))
    if fn is None:
        return False
    if finding.get("flavor") not in (None, "any", flavor):
        return False
    try:
        return bool(fn(prob, case, flavor))
    except Exception:
        return False


def run_streams(prop, spec, tier, seed, stats, deadline):
    """yield (flavor, case, impl_result, model_result) for corpus + generated cases"""
    scale = spec.get("thorough_scale", 8) if tier == "thorough" else 1
    # corpus first
    corpus = []
    cdir = os.path.join(core.VERIF, "corpus")
    for f in sorted(os.listdir(cdir)) if os.path.isdir(cdir) else []:
        if f.endswith(".json"):
            c = json.load(open(os.path.join(cdir, f)))
            if prop in c.get("properties", []):
                corpus.append(c)
    for flavor in spec["flavors"]:
        cs = [c["case"] for c in corpus if c.get("flavor", flavor) in (flavor, "any")]
        if cs:
            stats["corpus"] += len(cs)
            ir = core.run_impl_many(flavor, cs)
            mr = core.run_model_many(flavor, cs)
            for c, a, b in zip(cs, ir, mr):
                yield flavor, c, a, b
    for (profile, flavor, n) in spec["streams"]:
        n = n * scale
        done = 0
        batch = 200
        while done < n:
            if time.time() > deadline:
                stats["deadline_hit"] += 1
                return
            k = min(batch, n - done)
            cs = [gen.gen_case(seed, profile, done + i) for i in range(k)]
            done += k
            ir = core.run_impl_many(flavor, cs)
            mr = core.run_model_many(flavor, cs)
            for c, a, b in zip(cs, ir, mr):
                yield flavor, c, a, b


def main(argv):
    if len(argv) < 3:
        print("usage: check <Cnn> quick|thorough [--replay path]", file=sys.stderr)
        return 2
    prop, tier = argv[1], argv[2]
    if "--replay" in argv:
        from . import replay
        return replay.main(prop, argv[argv.index("--replay") + 1])
    seed = int(os.environ.get("VERIF_SEED", "0") or 0)
    t0 = time.time()
    spec = props.PROPS.get(prop)
    if spec is None:
        print(f"unknown property {prop}", file=sys.stderr)
        return 2
    if spec.get("runner"):
        # a property with its own exploration driver (same contract)
        return spec["runner"](prop, tier, seed)
    budget = spec.get("budget_s", {"quick": 240, "thorough": 1500})[tier]
    deadline = t0 + budget
    findings = core.load_findings()
    open_f = [f for f in findings.get("open", []) if f["property"] == prop]
    fixed_f = [f for f in findings.get("fixed", []) if f["property"] == prop]

    # ---- P
    pb = core.build_and_audit(prop, thorough=(tier == "thorough"), extra_targets=tuple(spec.get("lake_targets", ())))
    log(f"[P] {prop}: stage={pb['stage']} ok={pb['ok']} theorems={len(pb['theorems'])}")
    violations = []       # dicts: kind, replay payload
    known_hits = {}
    stats = collections.Counter()
    feat = collections.Counter()
    samples = []
    nontrivial = set()
    tie_breaks = []
    oracle_fails = []
    qsummaries = []
    try:
        if pb["stage"] in ("tables", "build") and not os.path.exists(modelio.DRIVER):
            log("[T] no driver binary: correspondence cannot run")
        else:
            # fixed findings must stay fixed; open findings must still reproduce (else they are stale)
            for f in fixed_f + open_f:
                rp = os.path.join(core.VERIF, f["replay"])
                r = json.load(open(rp))
                if r.get("flavor") not in ("sync", "async", "any", None):
                    # a replay with its own runner (e.g. the pure API)
                    probs = props.REPLAY_RUNNERS[r["flavor"]](r["case"])
                    if f in fixed_f and probs:
                        violations.append({"kind": "regression-of-fixed-finding", "finding": f["id"], "flavor": r["flavor"],
                                           "case": r["case"], "problems": probs[:3]})
                    if f in open_f and probs:
                        known_hits[f["id"]] = f
                    continue
                for flavor in ([r["flavor"]] if r.get("flavor") in ("sync", "async") else spec["flavors"]):
                    st, obs = core.impl_isolated((flavor, r["case"], 20))
                    probs = props.run_oracles(prop, r["case"], st, obs, flavor, replay=True)
                    if f in fixed_f and probs:
                        violations.append({"kind": "regression-of-fixed-finding", "finding": f["id"], "flavor": flavor,
                                           "case": r["case"], "problems": probs[:3]})
                    if f in open_f and probs:
                        known_hits[f["id"]] = f
            for flavor, case, (ist, iobs), mres in run_streams(prop, spec, tier, seed, stats, deadline):
                stats["evaluations"] += 1
                for ft in case.get("features", []):
                    feat[ft] += 1
                dg = core.case_digest(case) + flavor
                # ---- O
                probs = props.run_oracles(prop, case, ist, iobs, flavor)
                if probs:
                    # every problem must be explained by SOME open finding, else the case is a violation
                    unexplained = []
                    for p in probs:
                        f = next((f for f in open_f if classify(f, p, case, flavor)), None)
                        if f is None:
                            unexplained.append(p)
                        else:
                            known_hits[f["id"]] = f
                    if unexplained:
                        oracle_fails.append((flavor, case, unexplained))
                    else:
                        stats["known_finding_cases"] += 1
                # ---- T
                if ist == "ok" and mres[0] == "ok":
                    cut = oracles.first_illegal(case, iobs)
                    a = core.truncate_at(iobs, cut)
                    b = mres[1][:len(a)] if cut is None else core.truncate_at(mres[1], cut)
                    d = modelio.diff_obs(a, b, flavor)
                    if d is None:
                        stats["traces_validated_against_impl"] += 1
                        if any(len(o["T"]) > 0 for o in iobs[1:]):
                            nontrivial.add(dg)
                        if len(samples) < 3 and len(json.dumps(case)) < 2500:
                            samples.append({"case": case, "flavor": flavor, "final": iobs[-1]["C"], "status": iobs[-1]["S"]})
                    else:
                        tie_breaks.append((flavor, case, d))
                elif ist == "hang":
                    if mres[0] == "ok" and any(o["S"] == "HANG" for o in mres[1]):
                        stats["impl_hang"] += 1
                        stats["hang_agree"] += 1
                    else:
                        # the model terminates: rule out a slow machine before calling it a disagreement
                        # (at most a handful of such retries per run: a change that makes the engine hang on
                        #  many inputs must not turn a two-minute check into an hour)
                        if stats["hang_retries"] < 5:
                            stats["hang_retries"] += 1
                            ist2, iobs2 = core.impl_isolated((flavor, case, 40))
                        else:
                            ist2, iobs2 = "hang", None
                        if ist2 == "ok":
                            stats["slow_cases_retried"] += 1
                            d = modelio.diff_obs(iobs2, mres[1][:len(iobs2)], flavor) if mres[0] == "ok" and oracles.first_illegal(case, iobs2) is None else None
                            if d is None:
                                stats["traces_validated_against_impl"] += 1
                            else:
                                tie_breaks.append((flavor, case, d))
                            probs2 = props.run_oracles(prop, case, ist2, iobs2, flavor)
                            if [p for p in probs2 if not any(classify(f, p, case, flavor) for f in open_f)]:
                                oracle_fails.append((flavor, case, probs2))
                        else:
                            stats["impl_hang"] += 1
                            tie_breaks.append((flavor, case, {"step": -1, "fields": ["hang"], "impl": "hang", "model": "terminates"}))
                elif ist == "crash":
                    stats["impl_crash"] += 1
                    tie_breaks.append((flavor, case, {"step": -1, "fields": ["crash"], "impl": iobs, "model": mres[0]}))
                else:
                    stats["model_reject"] += 1
                    tie_breaks.append((flavor, case, {"step": -1, "fields": ["reject"], "impl": ist, "model": mres[1]}))
            # ---- function-level correspondence checks (Q queries) with their own monitors
            qsummaries = []
            for qfn in spec.get("q_checks", []):
                tq = time.time()
                qr = qfn(tier, seed)
                log(f"[Q] {prop}: {getattr(qfn, '__name__', 'q_check')} {time.time() - tq:.1f}s evals={qr['evaluations']} ties={len(qr['ties'])} fails={len(qr['fails'])}")
                stats["evaluations"] += qr["evaluations"]
                stats["traces_validated_against_impl"] += qr["evaluations"] - len(qr["ties"])
                stats["q_nontrivial"] += qr["nontrivial"]
                qsummaries.append({"check": qfn.__name__, "what": qr["what"], "evaluations": qr["evaluations"],
                                   "disagreements": len(qr["ties"]), "monitor_failures": len(qr["fails"]), "exhaustive": qr["exhaustive"]})
                for smp in qr["samples"][:2]:
                    if len(samples) < 5:
                        samples.append({"query": qfn.__name__, **smp})
                for t in qr["ties"][:50]:
                    tie_breaks.append(("query", {"id": qfn.__name__, "query": t}, t))
                for f in qr["fails"][:200]:
                    kf = next((k for k in open_f if classify(k, f, f.get("case") or {}, f.get("flavor") or "any")), None)
                    if kf is not None:
                        known_hits[kf["id"]] = kf
                        stats["known_finding_cases"] += 1
                    else:
                        oracle_fails.append(("query", {"id": qfn.__name__, "query": f}, [f]))
    finally:
        core.close_pool()

    # ---- verdict
    out_lines = []
    exit_code = 0
    for fid, f in sorted(known_hits.items()):
        out_lines.append(f"KNOWN-FINDING: property={prop} {f['what']}")
    for v in violations:
        path = core.write_replay(prop, f"regress_{v['finding']}", v)
        out_lines.append(f"VIOLATION property={prop} replay={path}")
        exit_code = 1
    if oracle_fails and oracle_fails[0][0] == "query":
        flavor, case, probs = oracle_fails[0]
        path = core.write_replay(prop, "oracle", {"property": prop, "kind": "property-monitor-failed-on-implementation", "flavor": "query",
                                               "query": case, "problems": probs[:5], "count": len(oracle_fails)})
        out_lines.append(f"VIOLATION property={prop} replay={path}")
        exit_code = 1
    elif oracle_fails:
        flavor, case, probs = oracle_fails[0]
        def unexplained_of(c):
            st_, obs_ = core.impl_isolated((flavor, c, 10))
            return [p for p in props.run_oracles(prop, c, st_, obs_, flavor)
                    if not any(classify(f, p, c, flavor) for f in open_f)]
        small = shrink.shrink_case(case, lambda c: bool(unexplained_of(c)), budget=120)
        path = core.write_replay(prop, "oracle", {"property": prop, "kind": "property-monitor-failed-on-implementation", "flavor": flavor,
                                               "case": small, "problems": unexplained_of(small)[:5],
                                               "original_case_id": case.get("id"), "count": len(oracle_fails)})
        out_lines.append(f"VIOLATION property={prop} replay={path}")
        exit_code = 1
    broken = []
    if not pb["ok"]:
        broken.append({"obligation": "P", "stage": pb["stage"], "log": pb["log"][-2500:], "failed_at": pb.get("failed_at")})
    if tie_breaks and tie_breaks[0][0] == "query":
        flavor, case, d = tie_breaks[0]
        broken.append({"obligation": "T", "correspondence": "query/" + case["id"], "count": len(tie_breaks), "first_difference": d})
    elif tie_breaks:
        flavor, case, d = tie_breaks[0]
        def still(c):
            st, obs = core.impl_isolated((flavor, c, 10))
            mr = core.run_model_many(flavor, [c])[0]
            if st != "ok" or mr[0] != "ok":
                return st != "ok" or mr[0] != "ok"
            cut = oracles.first_illegal(c, obs)
            a = core.truncate_at(obs, cut)
            b = mr[1][:len(a)] if cut is None else core.truncate_at(mr[1], cut)
            return modelio.diff_obs(a, b, flavor) is not None
        try:
            small = shrink.shrink_case(case, still, budget=100)
        except Exception:
            small = case
        broken.append({"obligation": "T", "correspondence": f"trace/{flavor}", "count": len(tie_breaks), "case": small, "flavor": flavor,
                       "first_difference": json.loads(json.dumps(d, default=str))})
    if broken and exit_code == 0:
        # no failing input was found by the monitors on anything explored
        path = core.write_replay(prop, "broken", {"property": prop, "kind": "proof-or-correspondence-no-longer-checks", "broken": broken,
                                               "note": "the property monitor passed on every implementation run explored; the property is no longer shown to hold"})
        out_lines.append(f"VIOLATION property={prop} replay={path} no-failing-input-found")
        exit_code = 1
    elif broken:
        core.write_replay(prop, "broken", {"property": prop, "broken": broken})

    core.close_pool()        # (the shrinker's single-case runs re-created it)
    wall = time.time() - t0
    n_thm = len(pb["theorems"]) if pb["theorems"] else len(core.property_theorems(prop))
    coverage = {
        "obligations": max(1, n_thm),
        "discharged": n_thm if pb["ok"] else 0,
        "checker_cmd": f"cd lean && lake build Xsm.Properties.{prop} && lake env lean .work/Audit_{prop}.lean  (#print axioms)" + (" && lake env leanchecker" if tier == "thorough" else ""),
        "trusted_base": ["Lean 4.33.0 kernel", "axioms: propext, Classical.choice, Quot.sound (audited per theorem)",
                         "tables translator harness/xsmverif/tables.py", "correspondence check harness/xsmverif (generator coverage bounds what it sees)",
                         "hand-written model lean/Xsm/Model/*.lean"],
        "theorems": pb["theorems"], "axioms": pb["axioms"],
        "evaluations": stats["evaluations"],
        "distinct_nontrivial": len(nontrivial) + stats["q_nontrivial"],
        "function_level_checks": qsummaries,
        "rule": "generated machine x guard valuation x event list per engine; distinct by digest of (machine, valuation, events, engine); non-trivial = at least one event after start produced a trace record and model and implementation agreed on the whole run",
        "traces_validated_against_impl": stats["traces_validated_against_impl"],
        "tie_disagreements": len(tie_breaks),
        "oracle_failures": len(oracle_fails),
        "known_finding_cases": stats["known_finding_cases"],
        "impl_hangs": stats["impl_hang"], "corpus_cases": stats["corpus"],
        "feature_histogram": dict(feat.most_common()),
        "samples": samples or [{"note": "no agreeing case small enough to print"}],
        "tables_changed_this_run": pb.get("tables_changed", False),
    }
    core.write_evidence(prop, tier, seed, coverage, wall, 1 if exit_code else 0, props.ASSUMPTIONS.get(prop, props.ASSUMPTIONS["*"]))
    for l in out_lines:
        print(l)
    log(f"[{prop}] {tier} seed={seed} wall={wall:.1f}s evals={stats['evaluations']} agree={stats['traces_validated_against_impl']} "
        f"tie_breaks={len(tie_breaks)} oracle_fails={len(oracle_fails)} known={len(known_hits)} exit={exit_code}")
    return exit_code


if __name__ == "__main__":
    try:
        sys.exit(main(sys.argv))
    except core.CheckError as e:
        print(f"harness error: {e}", file=sys.stderr)
        sys.exit(2)
    except Exception:
        traceback.print_exc()
        sys.exit(2)
