"""Function-level correspondence checks (`Q` queries of the driver) with their own monitors.

Each check returns {"evaluations", "nontrivial", "ties": [...], "fails": [...], "samples": [...], "exhaustive": bool}
  ties  = model/implementation disagreements   (obligation T)
  fails = implementation vs. independent reference disagreements (obligation O)
"""
from __future__ import annotations
import itertools, json, random, logging

logging.disable(logging.CRITICAL)
from . import modelio, ref


# ------------------------------------------------------------------------------------------- C20
KEY_POOL = ["a", "b", "a.b", "a.*", "a.b.*", "b.*", "*", "a.b.c", "done.a", "done.*", "xstate.*", "a.b.c.*", "error.*", ""]
EVENTS_Q = ["a", "b", "a.b", "a.b.c", "a.c", "b.a", "c", "done.a", "done.state.m", "error.platform.x", "after.100.m.a",
            "xstate.init", "a.", "a.*", "*", "ab", "done", "a.b.c.d"]


def c20_match(tier, seed):
    from xstate_statemachine.base_interpreter import BaseInterpreter
    rng = random.Random(seed)
    keysets = []
    maxk = 3 if tier == "quick" else 4
    for n in range(0, maxk + 1):
        keysets.extend(itertools.combinations(KEY_POOL, n))
    # dict order matters only through the order of equally long partials: also try shuffles
    extra = [tuple(rng.sample(ks, len(ks))) for ks in rng.sample(keysets, min(len(keysets), 300))]
    keysets = keysets + extra
    lines, meta = [], []
    for ks in keysets:
        for ev in EVENTS_Q:
            lines.append("Q match " + json.dumps(list(ks)) + " " + ev)
            meta.append((ks, ev))
    out = modelio.run_driver(lines)
    ties, fails, samples = [], [], []
    nontrivial = 0
    for (ks, ev), o in zip(meta, out):
        mres = json.loads(o).get("r")
        impl = BaseInterpreter._matching_descriptors({k: [] for k in ks}, ev)
        want = ref.matching_keys(list(ks), ev)
        if len(impl) > 1:
            nontrivial += 1
        if impl != mres:
            ties.append({"query": "match", "keys": list(ks), "event": ev, "impl": impl, "model": mres})
        if impl != want:
            fails.append({"kind": "descriptor-order", "keys": list(ks), "event": ev, "impl": impl, "expected": want})
        if len(samples) < 3 and len(impl) > 2:
            samples.append({"keys": list(ks), "event": ev, "result": impl})
    return {"evaluations": len(meta), "nontrivial": nontrivial, "ties": ties, "fails": fails, "samples": samples, "exhaustive": True,
            "what": f"_matching_descriptors on all key sets of size <= {maxk} from a pool of {len(KEY_POOL)} x {len(EVENTS_Q)} events"}


# ------------------------------------------------------------------------------------------- C06
ATOMS = ["T", "F", "R", "M", "{'type':'T'}", "SIa", "SIb", "SIa#", "P", "SIshort", "SIrel"]     # P = parameterised named guard (true)


def _atom(a):
    if a == "T":
        return "gT"
    if a == "F":
        return "gF"
    if a == "R":
        return "gR"
    if a == "M":
        return "gMissing"
    if a == "{'type':'T'}":
        return {"type": "gT"}
    if a == "SIa":
        return {"type": "stateIn", "params": {"state": "m.a"}}
    if a == "SIa#":
        return {"type": "stateIn", "params": {"value": "#m.a"}}
    if a == "SIb":
        return {"type": "stateIn", "params": {"state": "#m.b.c"}}
    if a == "SIshort":      # a bare key: true iff a state whose id is `c` or ends with `.c` is active (not `m.b.xc`)
        return {"type": "stateIn", "params": {"state": "c"}}
    if a == "SIrel":
        return {"type": "stateIn", "params": {"value": "b.c"}}
    return {"type": "gT", "params": {"limit": 3}}


def _spell(op, kids, k):
    if op == "not":
        c = kids[0]
        return [{"type": "not", "children": [c]}, {"type": "not", "params": {"guard": c}}, {"type": "not", "params": {"guards": [c]}},
                {"type": "not", "params": {"children": [c]}}][k % 4]
    return [{"type": op, "children": kids}, {"type": op, "params": {"guards": kids}}, {"type": op, "params": {"children": kids}}][k % 3]


def gen_formulas(depth, rng, cap):
    """all formulas to `depth` over ATOMS (capped by sampling at the deeper levels)"""
    level = [_atom(a) for a in ATOMS]
    allf = list(level)
    for d in range(depth):
        nxt = []
        pool = allf if len(allf) <= 40 else rng.sample(allf, 40)
        k = 0
        for c in pool:
            nxt.append(_spell("not", [c], k)); k += 1
        for op in ("and", "or"):
            for a in pool:
                for b in (pool if len(pool) <= 12 else rng.sample(pool, 12)):
                    nxt.append(_spell(op, [a, b], k)); k += 1
            for tri in range(min(60, len(pool))):
                nxt.append(_spell(op, rng.sample(pool, min(3, len(pool))), k)); k += 1
        if len(nxt) > cap:
            nxt = rng.sample(nxt, cap)
        allf.extend(nxt)
    return allf


Q_MACHINE = {"id": "m", "initial": "a", "states": {"a": {}, "b": {"initial": "c", "states": {"c": {}, "d": {}, "xc": {}}}, "xb": {"initial": "c", "states": {"c": {}}}}}
Q_GV = {"gT": "t", "gF": "f", "gR": "r"}


def c06_guard_eval(tier, seed):
    from xstate_statemachine import create_machine, SyncInterpreter
    from xstate_statemachine.models import GuardDefinition
    from xstate_statemachine.events import Event
    from xstate_statemachine.exceptions import XStateMachineError, ImplementationMissingError
    from . import impl
    rng = random.Random(seed)
    fs = gen_formulas(2 if tier == "quick" else 3, rng, 1500 if tier == "quick" else 12000)
    cfgs = [[[], ["a"]], [[], ["b"], ["b", "c"]], [[], ["b"], ["b", "d"]], [[], ["b"], ["b", "xc"]], [[], ["xb"], ["xb", "c"]]]
    log = []
    machine = create_machine(json.loads(json.dumps(Q_MACHINE)), logic=impl.mklogic(log, Q_GV))
    it = SyncInterpreter(machine).start()
    byid = {}

    def walk(n):
        byid[n.id] = n
        for c in n.states.values():
            walk(c)
    walk(machine)
    lines = ["M " + json.dumps(Q_MACHINE), "G " + " ".join(f"{k}={v}" for k, v in Q_GV.items())]
    meta = []
    for f in fs:
        for cfg in cfgs:
            lines.append("Q guard " + json.dumps({"g": f, "cfg": cfg}))
            meta.append((f, cfg))
    out = modelio.run_driver(lines)[2:]
    ties, fails, samples = [], [], []
    nontrivial = 0
    seen_kinds = {"true": 0, "false": 0, "missing": 0}
    for (f, cfg), o in zip(meta, out):
        mo = json.loads(o)
        ids = ["m" + "".join("." + k for k in p) for p in cfg]
        it._active_state_nodes = {byid[i] for i in ids}
        try:
            r = it._is_guard_satisfied(GuardDefinition(f), Event("E"))
            impl_res = {"r": bool(r)}
        except ImplementationMissingError as e:
            impl_res = {"e": "missing"}
        except XStateMachineError as e:
            impl_res = {"e": "parse"}
        except Exception as e:
            impl_res = {"e": "RAW:" + type(e).__name__}
        mcanon = {"r": mo["r"]} if "r" in mo else {"e": mo.get("e", "?").split(":")[0]}
        if impl_res != mcanon:
            ties.append({"query": "guard", "guard": f, "config": ids, "impl": impl_res, "model": mo})
        # reference: ordinary boolean meaning, raises = false, missing reached = error
        try:
            want = {"r": ref.eval_guard(f, set(ids), Q_GV)}
        except ref.Missing:
            want = {"e": "missing"}
        if impl_res != want:
            fails.append({"kind": "guard-semantics", "guard": f, "config": ids, "impl": impl_res, "expected": want})
        if isinstance(f, dict) and f.get("type") in ("and", "or", "not"):
            nontrivial += 1
        seen_kinds["missing" if "e" in impl_res else str(impl_res["r"]).lower()] += 1
        if len(samples) < 3 and isinstance(f, dict) and f.get("type") in ("and", "or") and len(json.dumps(f)) > 120:
            samples.append({"guard": f, "config": ids, "result": impl_res})
    it.stop()
    return {"evaluations": len(meta), "nontrivial": nontrivial, "ties": ties, "fails": fails, "samples": samples, "exhaustive": False,
            "what": f"_is_guard_satisfied on {len(fs)} formulas (depth <= {2 if tier == 'quick' else 3}, all operand spellings) x {len(cfgs)} configurations; outcomes {seen_kinds}"}


def c06_guard_parse(tier, seed):
    """GuardDefinition normalisation vs parseGuard, incl. malformed shapes"""
    from xstate_statemachine.models import GuardDefinition
    from xstate_statemachine.exceptions import XStateMachineError
    rng = random.Random(seed + 1)
    fs = gen_formulas(2, rng, 400)
    bad = [{"type": "and"}, {"type": "or", "children": []}, {"type": "not", "children": ["a", "b"]}, {"type": ""}, {"type": 5}, {},
           {"type": "and", "params": {"guards": []}}, {"type": "not", "params": {"guard": None}}, 5, None, [], ["a"], True,
           {"type": "x", "children": ["a"]}, {"type": "stateIn"}, "stateIn", {"type": "and", "children": ["stateIn"]},
           {"type": "not", "params": {"guard": {"type": "and", "children": ["p", {"type": "or", "params": {"children": ["q"]}}]}}}]
    allf = fs + bad

    def show(g):
        if g.is_composite:
            if g.type == "not":
                return "not[" + show(g.children[0]) + "]"
            return g.type + "[" + ",".join(show(c) for c in g.children) + "]"
        if g.is_state_in:
            p = g.params
            t = (p.get("state", p.get("value")) if isinstance(p, dict) else p) if p is not None else None
            return "stateIn(" + (t if isinstance(t, str) and t else "-") + ")"
        return "named(" + g.type + (",params" if g.params is not None else "") + ")"
    lines = ["Q parseguard " + json.dumps(f) for f in allf]
    out = modelio.run_driver(lines)
    ties, fails = [], []
    nontrivial = 0
    for f, o in zip(allf, out):
        mo = json.loads(o)
        try:
            ir = {"r": show(GuardDefinition(f))}
        except XStateMachineError:
            ir = {"e": "InvalidConfigError"}
        except Exception as e:
            ir = {"e": "RAW:" + type(e).__name__}
        mr = {"r": mo["r"]} if "r" in mo else {"e": (mo.get("e") or mo.get("err") or "?").split(":")[0]}
        if "e" in ir:
            nontrivial += 1
        if ir != mr:
            ties.append({"query": "parseguard", "guard": f, "impl": ir, "model": mr})
        if ir.get("e", "").startswith("RAW:"):
            fails.append({"kind": "raw-exception", "guard": f, "impl": ir})
    return {"evaluations": len(allf), "nontrivial": nontrivial, "ties": ties, "fails": fails, "samples": [{"guard": bad[2]}], "exhaustive": False,
            "what": "GuardDefinition(config) vs parseGuard on generated formulas and malformed shapes"}


# ------------------------------------------------------------------------------------------- C06 (params)
def c06_param_guards(tier, seed):
    """parameterised guards receive THEIR OWN params: candidate lists / ancestor chains / parallel regions
    that use one named predicate with different params (monitor on the real code; the model's guard
    environment is indexed by name only, so there is no tie here)"""
    from xstate_statemachine import create_machine, SyncInterpreter, MachineLogic
    import asyncio
    from . import impl
    rng = random.Random(seed + 77)
    n = 150 if tier == "quick" else 1200
    fails, samples = [], []
    nontrivial = 0

    def at_least(ctx, ev, params):
        return ctx["score"] >= params["n"]

    def below(ctx, ev, params):
        return ctx["score"] < params["n"]
    for i in range(n):
        score = rng.randint(0, 9)
        shape = rng.choice(["list", "chain", "regions"])
        gname = rng.choice(["atLeast", "below"])
        gfun = at_least if gname == "atLeast" else below
        ns = [rng.randint(0, 10) for _ in range(3)]
        def g(k):
            p = {"n": ns[k]}
            return rng.choice([{"type": gname, "params": p}, {"type": "and", "children": [{"type": gname, "params": p}]},
                               {"type": "not", "children": [{"type": "not", "children": [{"type": gname, "params": p}]}]}])
        if shape == "list":
            m = {"id": "m", "initial": "a", "context": {"score": score}, "states": {
                "a": {"on": {"GO": [{"target": "t0", "guard": g(0)}, {"target": "t1", "guard": g(1)}, {"target": "t2", "guard": g(2)}, {"target": "fb"}]}},
                "t0": {}, "t1": {}, "t2": {}, "fb": {}}}
            exp_idx = next((k for k in range(3) if gfun({"score": score}, None, {"n": ns[k]})), None)
            expected = ["m", "m.t%d" % exp_idx] if exp_idx is not None else ["m", "m.fb"]
        elif shape == "chain":
            m = {"id": "m", "initial": "p", "context": {"score": score}, "on": {"GO": {"target": "#m.root_t", "guard": g(2)}}, "states": {
                "p": {"initial": "c", "on": {"GO": {"target": "#m.par_t", "guard": g(1)}}, "states": {"c": {"on": {"GO": {"target": "#m.child_t", "guard": g(0)}}}}},
                "child_t": {}, "par_t": {}, "root_t": {}}}
            names = ["child_t", "par_t", "root_t"]
            exp_idx = next((k for k in range(3) if gfun({"score": score}, None, {"n": ns[k]})), None)
            expected = ["m", "m." + names[exp_idx]] if exp_idx is not None else ["m", "m.p", "m.p.c"]
        else:
            m = {"id": "m", "type": "parallel", "context": {"score": score}, "states": {
                "r0": {"initial": "w", "states": {"w": {"on": {"GO": {"target": "y", "guard": g(0)}}}, "y": {}}},
                "r1": {"initial": "w", "states": {"w": {"on": {"GO": {"target": "y", "guard": g(1)}}}, "y": {}}},
                "r2": {"initial": "w", "states": {"w": {"on": {"GO": {"target": "y", "guard": g(2)}}}, "y": {}}}}}
            expected = ["m"] + sorted(x for k in range(3) for x in ["m.r%d" % k, "m.r%d.%s" % (k, "y" if gfun({"score": score}, None, {"n": ns[k]}) else "w")])
        if len(set(ns)) > 1:
            nontrivial += 1
        for flavor in ("sync", "async"):
            logic = MachineLogic(guards={"atLeast": at_least, "below": below})
            try:
                if flavor == "sync":
                    it = SyncInterpreter(create_machine(json.loads(json.dumps(m)), logic=logic)).start()
                    it.send("GO")
                    got = sorted(x.id for x in it._active_state_nodes)
                    it.stop()
                else:
                    async def go():
                        from xstate_statemachine import Interpreter
                        it = Interpreter(create_machine(json.loads(json.dumps(m)), logic=logic))
                        await it.start()
                        await it.send("GO")
                        await impl._drain(it)
                        r = sorted(x.id for x in it._active_state_nodes)
                        await it.stop()
                        return r
                    loop = impl.VirtualLoop()
                    asyncio.set_event_loop(loop)
                    try:
                        got = loop.run_until_complete(go())
                    finally:
                        loop.close()
                        asyncio.set_event_loop(None)
            except Exception as e:
                got = ["EXC:" + type(e).__name__]
            if got != sorted(expected):
                fails.append({"kind": "guard-params", "flavor": flavor, "case": {"id": f"pg-{seed}-{i}", "machine": m, "guards": {}, "events": ["GO"]},
                              "detail": f"{shape}: score={score} thresholds={ns} predicate={gname}: expected {sorted(expected)} got {got}"})
        if len(samples) < 2:
            samples.append({"machine": m, "expected": expected})
    return {"evaluations": 2 * n, "nontrivial": 2 * nontrivial, "ties": [], "fails": fails, "samples": samples, "exhaustive": False,
            "what": "one named predicate with different params across a candidate list / an ancestor chain / parallel regions: each transition must be decided by its own params (both engines)"}
