"""C14 (lifecycle) and C04 (run-to-completion, lossless ordered processing): q_checks.

Model side: the executable `driver_life` (lean/DriverLife.lean over Xsm/Model/Lifecycle.lean).
Implementation side: the real `SyncInterpreter` / `Interpreter`, driven through their public API by a
sequence of lifecycle CALLS

    ["start"] ["send", e] ["send_events", [e..]] ["stop"] ["restore"] ["advance", ms]
    (async only, C04) ["produce", [[at_ms, e], ...]]   producer tasks awaiting `it.send(e)` at virtual times

* async engine: `impl.VirtualLoop` (virtual clock);
* sync engine: `sync_interpreter.threading/.time` are replaced IN THE HARNESS PROCESS by a deterministic
  shim (cooperative threads on a virtual clock), so `after` timers and delayed sends can be run, fired and
  counted without real waiting. The repository is not touched.

Every run of the real code happens in the worker pool under the SIGALRM watchdog of `impl.run_guarded`.
"""
from __future__ import annotations
import asyncio, copy, itertools, json, os, random, subprocess, threading as _rt

from . import core, gen, impl, modelio

DRIVER_LIFE = os.path.join(modelio.LEAN_DIR, ".lake", "build", "bin", "driver_life")

STATUSES = ("uninitialized", "running", "done", "error", "stopped")


# ===================================================================================================
# deterministic cooperative threads on a virtual clock (for the sync engine's timer threads)
# ===================================================================================================
class Sched:
    def __init__(self):
        self.now = 0.0
        self.seq = itertools.count()
        self.threads = []
        self.controller_sem = _rt.Semaphore(0)
        self.current = None

    def _resume(self, vt):
        prev = self.current
        self.current = vt
        vt.sem.release()
        self.controller_sem.acquire()
        self.current = prev

    def _runnable(self):
        out = []
        for vt in self.threads:
            if vt.done or not vt.started:
                continue
            if vt.blocked_on is None:
                out.append((vt.ready_at, vt.id, vt))
            else:
                ev, deadline = vt.blocked_on
                if ev is not None and ev.flag:
                    out.append((vt.ready_at, vt.id, vt))
                elif deadline is not None and deadline <= self.now:
                    out.append((deadline, vt.id, vt))
        return sorted(out, key=lambda x: (x[0], x[1]))

    def run_ready(self):
        for _ in range(100000):
            r = self._runnable()
            if not r:
                return
            self._resume(r[0][2])
        raise impl.Hang()

    def _deadlines(self):
        return [vt.blocked_on[1] for vt in self.threads
                if vt.started and not vt.done and vt.blocked_on and vt.blocked_on[1] is not None
                and not (vt.blocked_on[0] and vt.blocked_on[0].flag)]

    def advance(self, t):
        self.run_ready()
        while True:
            ds = [d for d in self._deadlines() if d <= t]
            if not ds:
                break
            self.now = max(self.now, min(ds))
            self.run_ready()
        self.now = max(self.now, t)

    def park(self, ev, timeout):
        vt = self.current
        deadline = None if timeout is None else self.now + timeout
        if vt is None:                       # the main thread blocks: let the others run meanwhile
            if timeout is None:
                raise RuntimeError("main thread would block forever")
            while True:
                self.run_ready()
                if ev is not None and ev.flag:
                    return
                ds = [d for d in self._deadlines() if d <= deadline]
                if not ds:
                    self.now = deadline
                    return
                self.now = max(self.now, min(ds))
        vt.blocked_on = (ev, deadline)
        self.controller_sem.release()
        vt.sem.acquire()
        vt.blocked_on = None
        vt.ready_at = self.now

    def alive(self):
        return [t for t in self.threads if t.is_alive()]


class VEvent:
    def __init__(self, sched):
        self.s = sched
        self.flag = False

    def set(self):
        self.flag = True

    def clear(self):
        self.flag = False

    def is_set(self):
        return self.flag

    def wait(self, timeout=None):
        if self.flag:
            return True
        self.s.park(self, timeout)
        return self.flag


class VThread:
    def __init__(self, sched, group=None, target=None, name=None, args=(), kwargs=None, daemon=None):
        self.s = sched
        self.target = target
        self.name = name or "vthread"
        self.daemon = daemon
        self.args = args
        self.kwargs = kwargs or {}
        self.id = next(sched.seq)
        self.sem = _rt.Semaphore(0)
        self.started = False
        self.done = False
        self.blocked_on = None
        self.ready_at = 0.0
        sched.threads.append(self)

    def _run(self):
        self.sem.acquire()
        try:
            self.target(*self.args, **self.kwargs)
        except BaseException:
            pass
        finally:
            self.done = True
            self.s.controller_sem.release()

    def start(self):
        # a library that spins (a macrostep that never ends) may start a timer / watcher thread per iteration: thousands of
        # parked OS threads slow everything down long before the watchdog fires - treated as the hang it is
        if sum(1 for t in self.s.threads if t.started and not t.done) > 6000:
            impl._HUNG[0] = True
            raise impl.Hang()
        self.started = True
        self.ready_at = self.s.now
        _rt.Thread(target=self._run, daemon=True).start()

    def is_alive(self):
        return self.started and not self.done

    def join(self, timeout=None):
        pass


class ThreadingShim:
    def __init__(self, sched):
        self.s = sched
        self.Event = lambda: VEvent(sched)
        self.Thread = lambda *a, **k: VThread(sched, *a, **k)
        self.enumerate = lambda: sched.alive()
        self.current_thread = _rt.current_thread
        self.Lock = _rt.Lock
        self.RLock = _rt.RLock


class TimeShim:
    def __init__(self, sched):
        self.s = sched

    def sleep(self, d):
        self.s.park(None, d)

    def time(self):
        return self.s.now

    def monotonic(self):
        return self.s.now


# ===================================================================================================
# the logic DSL of impl.py, extended locally: sleeping coroutine actions and services
# ===================================================================================================
class LifeActions(impl.RecorderActions):
    """`slow:<ms>[:tag]` is a coroutine action that records itself, then sleeps <ms> virtual ms"""

    def __init__(self, log, side):
        super().__init__(log)
        self.side = side

    def get(self, k, d=None):
        if isinstance(k, str) and k.startswith("slow:"):
            ms = int(k.split(":")[1])
            log, side = self.log, self.side

            async def af(i, c, e, a, _k=k):
                log.append(f"{_k}@{impl.canon_ev(e.type)}")
                side.append(("slow-begin", _k, len(log)))
                await asyncio.sleep(ms / 1000.0)
                side.append(("slow-end", _k, len(log)))
            return af
        return super().get(k, d)


class LifeServices(dict):
    """`svc:ok`, `svc:fail`, `svc:slow:<ms>` (coroutine; async engine only)"""

    def __init__(self, log):
        super().__init__()
        self.log = log

    def get(self, k, d=None):
        log = self.log
        if not isinstance(k, str) or not k.startswith("svc:"):
            return d
        parts = k.split(":")
        if parts[1] == "ok":
            def ok(i, c, e, _k=k):
                log.append(f"{_k}@svc")
                return 1
            return ok
        if parts[1] == "fail":
            def bad(i, c, e, _k=k):
                log.append(f"{_k}@svc")
                raise impl.ActionRaises(_k)
            return bad
        if parts[1] == "slow":
            ms = int(parts[2])

            async def slow(i, c, e, _k=k):
                log.append(f"{_k}@svc")
                await asyncio.sleep(ms / 1000.0)
                log.append(f"{_k}.end@svc")
                return 1
            return slow
        return d

    def __contains__(self, k):
        return self.get(k) is not None


def mklogic(log, side, gv):
    lg = impl.mklogic(log, gv)
    lg.actions = LifeActions(log, side)
    lg.services = LifeServices(log)
    return lg


class _CutPositions(__import__("logging").Handler):
    """where in the record log the library logged a maxIterations cut ("Exceeded ..."): `o["cut_at"]` of the C04 runs
    (the causal-tree rule of `c04_monitor` uses it: nothing is dropped from the queue before the first cut)"""

    def __init__(self):
        super().__init__(level=40)
        self.log = None
        self.at = []

    def emit(self, record):
        try:
            if self.log is not None and "Exceeded" in record.getMessage():
                self.at.append(len(self.log))
        except Exception:
            pass

    def begin(self, log):
        self.log = log
        self.at = []


_CUTPOS = _CutPositions()
impl._LIBLOG.addHandler(_CUTPOS)


def _fingerprint(it, flavor):
    ids = sorted(n.id for n in it._active_state_nodes)
    hist = {k: [n.id for n in v] for k, v in it._history.items()}
    ctx = copy.deepcopy(it.context) if isinstance(it.context, dict) else None
    q = len(it._event_queue) if flavor == "sync" else it._event_queue.qsize()
    return json.dumps([ids, hist, ctx, q, it.status], sort_keys=True, default=str)


def _observe(it, flavor, log, exc, nerr):
    o = impl.observe(it, log, exc, nerr)
    o["Q"] = len(it._event_queue) if flavor == "sync" else it._event_queue.qsize()
    o["L"] = bool(flavor == "async" and it._event_loop_task is not None)
    return o


def _exc_name(x):
    return type(x).__name__ if isinstance(x, impl.XStateMachineError) else f"RAW:{type(x).__name__}"


def _build(flavor, case, log, side):
    machine = impl.create_machine(copy.deepcopy(case["machine"]), logic=mklogic(log, side, case.get("guards", {})))
    it = (impl.SyncInterpreter if flavor == "sync" else impl.Interpreter)(machine)
    it.use(impl.RecorderPlugin(log))
    return machine, it


def _restore(flavor, case, it, log, side):
    cls = impl.SyncInterpreter if flavor == "sync" else impl.Interpreter
    snap = it.get_snapshot()
    machine = impl.create_machine(copy.deepcopy(case["machine"]), logic=mklogic(log, side, case.get("guards", {})))
    new = cls.from_snapshot(snap, machine)
    new.use(impl.RecorderPlugin(log))
    return new


# --------------------------------------------------------------------------------------------- sync
def run_life_sync(case):
    import xstate_statemachine.sync_interpreter as si
    sched = Sched()
    saved = (si.threading, si.time)
    si.threading, si.time = ThreadingShim(sched), TimeShim(sched)
    log, side, out = impl.BoundedLog(), [], []
    abandoned = []
    try:
        machine, it = _build("sync", case, log, side)
        for call in case["calls"]:
            log.clear()
            impl._COUNTER.reset()
            _CUTPOS.begin(log)
            before = _fingerprint(it, "sync")
            s0 = it.status
            exc = ""
            try:
                op = call[0]
                if op == "start":
                    it.start()
                elif op == "send":
                    it.send(call[1])
                elif op == "send_events":
                    it.send_events(list(call[1]))
                elif op == "stop":
                    it.stop()
                elif op == "restore":
                    new = _restore("sync", case, it, log, side)
                    abandoned.append(it)
                    it.stop()                     # the abandoned original must not keep timers of its own
                    log.clear()
                    it = new
                elif op == "advance":
                    sched.advance(sched.now + call[1] / 1000.0)
                else:
                    raise ValueError(call)
            except impl.Hang:
                raise
            except Exception as x:
                exc = _exc_name(x)
            # judged at the moment the call returns, before any timer thread gets to run
            quiet = call[0] == "restore" or (before == _fingerprint(it, "sync") and not log)
            s_ret = it.status
            sched.run_ready()
            o = _observe(it, "sync", log, exc, impl._COUNTER.n)
            o.update(call=call, S0=s0, same=(before == _fingerprint(it, "sync")), quiet=quiet, Sr=s_ret, cuts=impl._COUNTER.cuts, cut_at=list(_CUTPOS.at))
            if it.status == "stopped":
                # census: nothing of this interpreter may be alive, nothing may be delivered later
                o["threads"] = sorted(t.name.split("::")[0] for t in sched.alive())
                n0 = len(log)
                sched.advance(sched.now + 3600.0)
                o["late"] = list(log[n0:])
                o["threads_late"] = len(sched.alive())
                o["pending"] = [len(it._after_events), len(it._after_threads), len(it._pending_send_cancels), len(it._actors)]
            out.append(o)
        return out
    finally:
        try:
            for x in abandoned:
                x.stop()
            it.stop()
            sched.advance(sched.now + 7200.0)
        except BaseException:
            pass
        si.threading, si.time = saved


# -------------------------------------------------------------------------------------------- async
async def _drain_life(it, step=0.0):
    """wait (in virtual time) until the run loop is idle; sleeping actions inside eventless loops can make one
    macrostep last seconds of virtual time, so the waiting step grows"""
    for i in range(20000):
        if impl._HUNG[0]:
            raise impl.Hang()
        await asyncio.sleep(step if i < 2000 else step * 100)
        t = it._event_loop_task
        if t is None or t.done():
            return
        if not it._processing and (it._event_queue.empty() or it.status != "running"):
            return
    raise impl.Hang()


def _live_tasks():
    cur = asyncio.current_task()
    return [t for t in asyncio.all_tasks() if t is not cur and not t.done()]


def _task_name(t):
    try:
        return t.get_coro().__qualname__
    except Exception:
        return repr(t)[:60]


async def _run_life_async(case):
    log, side, out = impl.BoundedLog(), [], []
    machine, it = _build("async", case, log, side)
    step = case.get("drain_step_ms", 0) / 1000.0
    for call in case["calls"]:
        log.clear()
        impl._COUNTER.reset()
        before = _fingerprint(it, "async")
        s0 = it.status
        l0 = it._event_loop_task is not None
        exc = ""
        try:
            op = call[0]
            if op == "start":
                await it.start()
            elif op == "send":
                await it.send(call[1])
            elif op == "send_events":
                await it.send_events(list(call[1]))
            elif op == "stop":
                await it.stop()
            elif op == "restore":
                new = _restore("async", case, it, log, side)
                await it.stop()
                log.clear()
                it = new
            elif op == "advance":
                await asyncio.sleep(call[1] / 1000.0)
            else:
                raise ValueError(call)
        except impl.Hang:
            raise
        except Exception as x:
            exc = _exc_name(x)
        # judged at the moment the call returns, before any other task gets to run
        quiet = call[0] == "restore" or (before == _fingerprint(it, "async") and not log)
        s_ret = it.status
        await _drain_life(it, step)
        o = _observe(it, "async", log, exc, impl._COUNTER.n)
        o.update(call=call, S0=s0, L0=l0, same=(before == _fingerprint(it, "async")), quiet=quiet, Sr=s_ret, cuts=impl._COUNTER.cuts)
        if it.status == "stopped":
            await asyncio.sleep(0)
            o["threads"] = sorted(_task_name(t) for t in _live_tasks())
            n0 = len(log)
            await asyncio.sleep(3600.0)
            o["late"] = list(log[n0:])
            o["threads_late"] = len(_live_tasks())
            o["pending"] = [sum(len(v) for v in it.task_manager._tasks_by_owner.values()), len(it._actors)]
        out.append(o)
    try:
        await it.stop()
    except Exception:
        pass
    return out


def _run_on_vloop(coro_fn, case):
    loop = impl.VirtualLoop()
    loop.set_exception_handler(lambda _l, _c: None)
    asyncio.set_event_loop(loop)
    try:
        return loop.run_until_complete(coro_fn(case))
    finally:
        try:
            for t in asyncio.all_tasks(loop):
                t.cancel()
            loop.run_until_complete(asyncio.sleep(0))
        except BaseException:
            pass
        loop.close()
        asyncio.set_event_loop(None)


def run_life_async(case):
    return _run_on_vloop(_run_life_async, case)


# ------------------------------------------------------------------------------------- pooled execution
def _register():
    impl.RUNNERS.setdefault("life-sync", run_life_sync)
    impl.RUNNERS.setdefault("life-async", run_life_async)
    impl.RUNNERS.setdefault("c04-sync", run_c04_sync)
    impl.RUNNERS.setdefault("c04-async", run_c04_async)


def _worker(args):
    key, case, timeout = args
    _register()
    try:
        return impl.run_guarded(key, case, timeout)
    except BaseException as e:
        return ("crash", f"HARNESS:{type(e).__name__}: {e}"[:300])


def run_many(key, cases, timeout=8):
    """pooled execution; a case the watchdog cut is run once more on its own with a longer watchdog (a loaded
    machine can starve a worker for seconds): only a case that does not return twice counts as a hang"""
    res = _run_many(key, cases, timeout)
    for i, (st, _o) in enumerate(res):
        if st == "hang":
            res[i] = _worker((key, cases[i], 4 * timeout))
    return res


def _run_many(key, cases, timeout=8):
    import multiprocessing as mp
    args = [(key, c, timeout) for c in cases]
    budget = 60 + (timeout + 1) * (len(cases) / 4 + 1)
    try:
        return core.pool().map_async(_worker, args, chunksize=4).get(budget)
    except mp.TimeoutError:
        core.close_pool()
        out = []
        for a in args:
            try:
                out.append(core.pool().apply_async(_worker, (a,)).get(timeout * 3 + 10))
            except mp.TimeoutError:
                core.close_pool()
                out.append(("hang", None))
        return out


# ------------------------------------------------------------------------------------------- model side
def life_lines(case, flavor):
    gv = case.get("guards", {})
    lines = ["M " + json.dumps(case["machine"]), "G " + " ".join(f"{k}={v}" for k, v in gv.items()), f"F {flavor}"]
    for call in case["calls"]:
        op = call[0]
        if op == "start":
            lines.append("START")
        elif op == "send":
            lines.append("SEND " + call[1])
        elif op == "send_events":
            lines.append(("SENDMANY " + " ".join(call[1])).rstrip())
        elif op == "stop":
            lines.append("STOP")
        elif op == "restore":
            lines.append("RESTORE")
        else:
            raise ValueError(f"the lifecycle model has no operation {op}")
    return lines


def run_life_model(cases, flavor, chunk=200):
    res = []
    for i in range(0, len(cases), chunk):
        lines, spans = [], []
        for c in cases[i:i + chunk]:
            ls = life_lines(c, flavor)
            spans.append((len(lines), len(ls)))
            lines.extend(ls)
        r = subprocess.run([DRIVER_LIFE], input="\n".join(lines) + "\n", capture_output=True, text=True, timeout=600)
        if r.returncode != 0:
            raise core.CheckError(f"driver_life exit {r.returncode}: {r.stderr[:300]}")
        out = r.stdout.split("\n")[:-1]
        if len(out) != len(lines):
            raise core.CheckError(f"driver_life answered {len(out)} lines for {len(lines)} commands")
        for a, n in spans:
            chunk_ = [json.loads(x) for x in out[a:a + n]]
            res.append(("ok", chunk_[3:]) if chunk_[0].get("ok") else ("reject", chunk_[0].get("err", "")))
    return res


def canon_life(o, flavor):
    d = modelio.canon_obs(o, flavor, "x")
    d["Q"] = o.get("Q", 0)
    d["E"] = o.get("E", "")
    if flavor == "async":
        d["L"] = bool(o.get("L"))
    return d


def first_illegal_life(case, obs):
    """(step, at) of the first illegal configuration the run showed (behaviour after it depends on set
    iteration order in the implementation and is not compared with the model), or None"""
    from . import oracles
    tree = oracles.Tree(case["machine"])
    for step, o in enumerate(obs):
        if o["S"] == "uninitialized" or (o["E"] and not o["C"]):
            continue
        for at, r in enumerate(o["T"]):
            if r.startswith("#t:") and tree.legal_problems([x for x in r[3:].split(",") if x]):
                return (step, at)
        if o["C"] and tree.legal_problems(o["C"]):
            return (step, None)
    return None


def diff_life(iobs, mobs, flavor, case=None):
    if case is not None:
        cut = first_illegal_life(case, iobs)
        if cut is not None:
            iobs = core.truncate_at(iobs, cut)
            mobs = core.truncate_at(mobs, cut)
            for o in iobs + mobs:
                o.setdefault("call", None)
            if cut[1] is not None:
                iobs[-1]["_partial"] = mobs[-1]["_partial"] = True
    for i, (a, b) in enumerate(zip(iobs, mobs)):
        if a.get("_partial"):
            if [modelio._canon_rec(r) for r in a["T"]] != [modelio._canon_rec(r) for r in b["T"]]:
                return {"step": i, "call": a.get("call"), "fields": ["T"], "impl": {"T": a["T"]}, "model": {"T": b["T"]}}
            continue
        ca, cb = canon_life(a, flavor), canon_life(b, flavor)
        if flavor == "async" and ca["S"] == "stopped":
            ca.pop("L"), cb.pop("L")            # a cancelled loop task object may stay referenced: irrelevant once stopped
        if ca != cb:
            keys = [k for k in ca if ca[k] != cb.get(k)]
            return {"step": i, "call": a.get("call"), "fields": keys, "impl": {k: ca[k] for k in keys}, "model": {k: cb.get(k) for k in keys}}
    if len(iobs) != len(mobs):
        return {"step": min(len(iobs), len(mobs)), "fields": ["len"], "impl": len(iobs), "model": len(mobs)}
    return None


# ===================================================================================================
# C14 monitor (independent of the model)
# ===================================================================================================
TERMINAL = ("done", "error", "stopped")


def _allowed_after(op, s0, resumes=False):
    """statuses a call may leave behind, given the status it found (the property's automaton, per call)"""
    if op == "start":
        if s0 == "uninitialized":
            return {"running", "done", "error", "stopped"}      # started; may complete / fail at once
        if s0 == "running" and resumes:
            return {"running", "done", "error"}                 # restored interpreter resumed: queued events run
        return {s0}
    if op in ("send", "send_events", "advance", "produce"):
        if s0 == "running":
            return {"running", "done", "error"}
        return {s0}
    if op == "stop":
        return {s0} if s0 in ("uninitialized", "stopped") else {"stopped"}
    return {s0}


def c14_monitor(case, obs, flavor):
    """problems of one implementation run against C14"""
    out = []

    def bad(kind, step, detail):
        out.append({"kind": kind, "step": step, "detail": detail, "call": obs[step].get("call")})

    for i, o in enumerate(obs):
        op, s0, s1 = o["call"][0], o["S0"], o["S"]
        resumes = flavor == "async" and op == "start" and s0 in ("running", "done", "error") and not o.get("L0", True)
        quiet = o["quiet"]          # nothing changed and nothing was recorded when the call returned
        if s1 not in STATUSES:
            bad("unknown-status", i, f"status {s1!r}")
        # the call itself (status when it returned), then whatever ran in the background until the observation
        # (async: the run loop draining what the call queued, service tasks; sync: timer threads that were due)
        sr = o.get("Sr", s1)
        if sr not in _allowed_after(op, s0, resumes):
            bad("illegal-status-edge", i, f"{op}: status went {s0} -> {sr}")
        elif sr != s1 and s1 not in _allowed_after("advance", sr):
            bad("illegal-status-edge", i, f"after {op} returned: status went {sr} -> {s1}")
        if o["E"].startswith("RAW:"):
            bad("raw-exception", i, f"{op} raised {o['E']}")
        if op == "start":
            if s0 == "stopped":
                if not o["E"] or o["E"].startswith("RAW:"):
                    bad("restart-not-refused", i, f"start() on a stopped interpreter raised {o['E'] or 'nothing'}")
                if not quiet:
                    bad("restart-changed-state", i, f"start() on a stopped interpreter changed it / ran user code: {o['T'][:3]}")
            elif s0 in ("running", "done", "error") and not (resumes and s0 == "running"):
                # idempotent while running (and once finished): nothing changes, nothing runs, nothing is raised
                if not quiet or o["E"]:
                    bad("start-not-idempotent", i, f"start() in status {s0}: changed={not o['same']} log={o['T'][:3]} exc={o['E']}")
        if op in ("send", "send_events") and s0 in TERMINAL and (not quiet or o["E"]):
            bad("send-not-ignored", i, f"{op} in status {s0}: changed={not o['same']} log={o['T'][:3]} exc={o['E']}")
        if op == "stop":
            if o["E"]:
                bad("stop-raised", i, f"stop() raised {o['E']}")
            if s0 in ("uninitialized", "stopped") and not quiet:
                bad("stop-not-idempotent", i, f"stop() in status {s0} changed the interpreter")
        if s1 == "stopped":
            if o.get("threads"):
                bad("alive-after-stop", i, f"still alive after stop() returned: {o['threads'][:4]}")
            if o.get("late"):
                bad("delivered-after-stop", i, f"recorded after stop(): {o['late'][:4]}")
            if o.get("threads_late"):
                bad("alive-after-stop", i, f"{o['threads_late']} task(s)/thread(s) alive an hour after stop()")
            if any(o.get("pending") or []):
                bad("registry-not-released", i, f"timers/threads/sends/actors still registered after stop(): {o['pending']}")
            if s0 == "stopped" and op != "restore" and not (quiet and o["same"] and not o["T"]):
                bad("activity-after-stop", i, f"{op} on a stopped interpreter: log={o['T'][:3]} changed={not o['same']}")
    return out


# ===================================================================================================
# case generation
# ===================================================================================================
def _gen_calls(rng, events, n_max=10, flavor="sync"):
    """<= n_max calls; the out-of-order shapes (stop / send / restore before start, double start, start after
    stop, send after done) are forced with fixed probabilities rather than left to chance"""
    calls = []
    r = rng.random()
    if r < 0.12:
        calls.append(["stop"])
    elif r < 0.27:
        calls.append(rng.choice([["send", rng.choice(events)], ["send_events", [rng.choice(events), rng.choice(events)]]]))
    elif r < 0.33:
        calls.append(["restore"])
    calls.append(["start"])
    n = rng.randint(4, n_max)
    while len(calls) < n:
        r = rng.random()
        if r < 0.12:
            calls.append(["start"])
        elif r < 0.50:
            calls.append(["send", rng.choice(events)])
        elif r < 0.68:
            calls.append(["send_events", [rng.choice(events) for _ in range(rng.randint(0, 4))]])
        elif r < 0.84:
            calls.append(["stop"])
            if rng.random() < 0.5 and len(calls) < n:
                calls.append(["start"])                      # start after stop
        else:
            calls.append(["restore"])
            if rng.random() < 0.5 and len(calls) < n:
                calls.append(["send", rng.choice(events)])   # send between restore and start (async: queued)
    return calls[:n_max]


def gen_life_case(seed, profile, idx):
    base = gen.gen_case(seed, profile, 40000 + idx)
    rng = random.Random((seed << 16) ^ (idx * 104729 + 7))
    events = sorted(set(base["events"])) or ["A"]
    return {"id": f"life-{profile}-{seed}-{idx}", "machine": base["machine"], "guards": base["guards"],
            "calls": _gen_calls(rng, events), "features": base["features"]}


def _resource_machine(rng, flavor):
    """hand-shaped machines WITH timers, delayed raises and services (the model has none of these)"""
    d1, d2, d3 = rng.choice([5, 20, 50]), rng.choice([10, 30, 80]), rng.choice([15, 40, 200])
    svc = rng.choice(["svc:ok", "svc:ok", "svc:fail", "svc:fail", "absent"] + (["svc:slow:25", "svc:slow:60"] * 2 if flavor == "async" else []))
    on_err = rng.random() < 0.5
    inv = {"src": svc, "onDone": {"actions": ["svc-done"]}}
    if on_err:
        inv["onError"] = {"actions": ["svc-error"]}
    m = {"id": "m", "initial": "a", "context": {"n": 0},
         "after": {str(d3): {"actions": ["root-timer"]}},
         "states": {
             "a": {"entry": ["en:a", {"type": "xstate.raise", "params": {"event": "LATER", "delay": d2}}],
                   "after": {str(d1): {"target": "b", "actions": ["a-timer"]}},
                   "on": {"GO": {"target": "b", "actions": ["go"]}, "LATER": {"actions": ["later@a"]}, "FIN": "f"}},
             "b": {"entry": ["en:b"], "invoke": inv,
                   "after": {str(d2): {"target": "c", "actions": ["b-timer"]}},
                   "on": {"GO": {"target": "c"}, "LATER": {"actions": ["later@b"]}, "FIN": "f"}},
             "c": {"entry": ["en:c", {"type": "raise", "params": {"event": "LATER", "delay": d3, "id": "late"}}],
                   "after": {str(d1): {"target": "a", "actions": ["c-timer"]}},
                   "on": {"GO": "a", "LATER": {"actions": ["later@c"]}, "FIN": "f"}},
             "f": {"type": "final", "entry": ["en:f"]}}}
    if rng.random() < 0.4:
        m["states"]["p"] = {"type": "parallel", "states": {
            "r1": {"initial": "x", "states": {"x": {"after": {str(d1): "y"}}, "y": {"after": {str(d2): "x"}}}},
            "r2": {"initial": "u", "states": {"u": {"entry": [{"type": "raise", "params": {"event": "LATER", "delay": d1}}],
                                                "on": {"LATER": {"actions": ["later@u"]}}}}}}}
        m["states"]["a"]["on"]["PAR"] = "p"
    return m


def gen_resource_case(seed, flavor, idx):
    rng = random.Random((seed << 16) ^ (idx * 15485863 + 11) ^ (1 if flavor == "async" else 0))
    m = _resource_machine(rng, flavor)
    events = ["GO", "GO", "LATER", "FIN", "PAR", "X"]
    calls = []
    n = rng.randint(3, 10)
    if rng.random() < 0.1:
        calls.append(["stop"])
    calls.append(["start"])
    while len(calls) < n:
        r = rng.random()
        if r < 0.3:
            calls.append(["send", rng.choice(events)])
        elif r < 0.6:
            calls.append(["advance", rng.choice([1, 7, 12, 25, 45, 90, 300])])
        elif r < 0.8:
            calls.append(["stop"])
        elif r < 0.88:
            calls.append(["start"])
        elif r < 0.94:
            calls.append(["send_events", [rng.choice(events) for _ in range(rng.randint(1, 3))]])
        else:
            calls.append(["restore"])
    if not any(c[0] == "stop" for c in calls):
        calls.append(["stop"])
    return {"id": f"res-{flavor}-{seed}-{idx}", "machine": m, "guards": {}, "calls": calls, "drain_step_ms": 0}


def split_known(prop, fails):
    """separate the failures an OPEN entry of known_findings.json explains (its classifier matches) from the rest"""
    from . import props
    open_f = [f for f in core.load_findings().get("open", []) if f["property"] == prop]
    known, rest = [], []
    for p in fails:
        hit = None
        for f in open_f:
            fn = props.CLASSIFIERS.get(f.get("classifier"))
            try:
                if fn and f.get("flavor") in (None, "any", p.get("flavor")) and fn(p, p.get("case", {}), p.get("flavor")):
                    hit = f
                    break
            except Exception:
                pass
        (known if hit else rest).append(dict(p, finding=hit["id"]) if hit else p)
    return known, rest


def replay_monitor(prop, case, flavor):
    """rerun a replay payload (`calls`) on the real engine and return what the property's monitor says"""
    if "calls" not in case:
        return []
    key = ("life-" if prop == "C14" else "c04-") + flavor
    st, obs = _worker((key, case, 20))
    if st != "ok":
        return [{"kind": "hang" if st == "hang" else "raw-exception", "step": -1, "at": None, "detail": str(obs)[:200]}]
    mon = c14_monitor if prop == "C14" else c04_monitor
    return [dict(p, at=None) for p in mon(case, obs, flavor)]


def c14_lifecycle(tier, seed):
    scale = 6 if tier == "thorough" else 1
    ties, fails, samples = [], [], []
    evals = nontrivial = 0
    hist = {}
    for flavor in ("sync", "async"):
        key = f"life-{flavor}"
        # (i) generated machines: model vs code on every call, plus the monitor
        cases = []
        for prof, n in (("core", 160), ("done", 160), ("actions", 100), ("loops", 100), ("faults", 80)):
            cases += [gen_life_case(seed, prof, i) for i in range(n * scale)]
        ir = run_many(key, cases)
        mr = run_life_model(cases, flavor)
        for c, (st, obs), (mst, mobs) in zip(cases, ir, mr):
            evals += 1
            if st != "ok":
                fails.append({"kind": "hang" if st == "hang" else "raw-exception", "flavor": flavor, "case": c, "detail": str(obs)[:200]})
                continue
            if mst != "ok":
                ties.append({"flavor": flavor, "case": c, "detail": f"model rejects the machine: {mobs}"})
                continue
            d = diff_life(obs, mobs, flavor, c)
            if d is not None:
                ties.append({"flavor": flavor, "case": c, "diff": d})
            pr = c14_monitor(c, obs, flavor)
            for p in pr[:2]:
                fails.append(dict(p, flavor=flavor, case=c))
            sts = [o["S"] for o in obs]
            for a, b in zip([obs[0]["S0"]] + sts, sts):
                hist[f"{a}->{b}"] = hist.get(f"{a}->{b}", 0) + 1
            if d is None and not pr and len(set(sts)) >= 3:
                nontrivial += 1
                if len(samples) < 2 and len(json.dumps(c)) < 2500:
                    samples.append({"case": c, "flavor": flavor, "statuses": sts})
        # (ii) machines with timers / delayed sends / services: the monitor (census after stop) only
        rcases = [gen_resource_case(seed, flavor, i) for i in range(300 * scale)]
        rr = run_many(key, rcases)
        for c, (st, obs) in zip(rcases, rr):
            evals += 1
            if st != "ok":
                fails.append({"kind": "hang" if st == "hang" else "raw-exception", "flavor": flavor, "case": c, "detail": str(obs)[:200]})
                continue
            pr = c14_monitor(c, obs, flavor)
            for p in pr[:2]:
                fails.append(dict(p, flavor=flavor, case=c))
            for o in obs:
                hist[f"{o['S0']}->{o['S']}"] = hist.get(f"{o['S0']}->{o['S']}", 0) + 1
            if not pr and any(o["S"] == "stopped" for o in obs) and any(o["T"] for o in obs):
                nontrivial += 1
    known, fails = split_known("C14", fails)
    return {"evaluations": evals, "nontrivial": nontrivial, "ties": ties, "fails": fails, "known": known, "samples": samples,
            "exhaustive": False, "status_edges_seen": hist,
            "what": f"[(status before, after) per call: {json.dumps(hist)}] random sequences of <= 10 lifecycle calls (start/send/send_events/stop/snapshot-restore, repeated and out of order) on "
                    "generated machines, both engines: every observation diffed against the Lean lifecycle model; monitor = allowed status edges "
                    "per call, start-after-stop raises a library error, sends in done/error/stopped change nothing, stop idempotent; plus machines "
                    "with after-timers, delayed raises and services: census of tasks/threads and a silent recorder for an hour after stop()"}


# ===================================================================================================
# C04: run-to-completion, lossless, ordered
# ===================================================================================================
EXT = ["A", "B", "C", "D"]


def _is_raise(a):
    return isinstance(a, dict) and a.get("type") in ("raise", "xstate.raise", "raise_")


def _raised_name(a):
    ev = (a.get("params") or {}).get("event")
    return ev.get("type") if isinstance(ev, dict) else ev


def c04_machine(base, rng, max_iter, slow=False):
    """a generated machine with every RAISED event renamed `r<X>` (so received events can be attributed:
    `A..D` are only ever sent from outside, `r*` only ever raised) and a marker `rz:r<X>` right before each
    raise; about half of the handlers of X also handle r<X>"""
    m = copy.deepcopy(base)

    def fix_list(lst):
        if lst is None:
            return lst
        items = lst if isinstance(lst, list) else [lst]
        out = []
        for a in items:
            if _is_raise(a):
                name = "r" + str(_raised_name(a))
                a = {"type": a["type"], "params": {"event": {"type": name}}}
                out.append("rz:" + name)
            out.append(a)
        return out

    def walk(n, depth=0):
        for k in ("entry", "exit"):
            if k in n:
                n[k] = fix_list(n[k])
        buckets = [n.get("on") or {}]
        for key in ("always", "onDone"):
            if key in n:
                buckets.append({key: n[key]})
        for b in buckets:
            for ev, v in b.items():
                for t in (v if isinstance(v, list) else [v]):
                    if isinstance(t, dict) and "actions" in t:
                        t["actions"] = fix_list(t["actions"])
        on = n.get("on") or {}
        for ev in list(on.keys()):
            if ev in EXT and rng.random() < 0.5:
                on["r" + ev] = copy.deepcopy(on[ev])
        if slow and "entry" in n and rng.random() < 0.35:
            n["entry"] = list(n["entry"]) + [f"slow:{rng.choice([3, 7, 15])}:{depth}{len(n['entry'])}"]
        for c in (n.get("states") or {}).values():
            walk(c, depth + 1)
    walk(m)
    m["maxIterations"] = max_iter
    return m


def gen_c04_case(seed, flavor, idx, produce=False):
    rng = random.Random((seed << 16) ^ (idx * 2654435761 % (1 << 31)) ^ (3 if flavor == "async" else 5) ^ (64 if produce else 0))
    prof = rng.choice(["core", "actions", "loops", "done", "core", "faults", "loopfaults"])
    base = gen.gen_case(seed, prof, 60000 + idx)
    n = rng.choice([2, 3, 4, 6]) if not produce else rng.choice([3, 6, 25])
    m = c04_machine(base["machine"], rng, n, slow=produce)
    calls = [["start"]]
    if produce:
        k = rng.randint(2, 3)
        groups = [["A", "B"], ["C", "D"], ["A", "C"]][:k] if k == 3 else [["A", "B"], ["C", "D"]]
        prods = []
        for g in groups:
            t, evs = 0, []
            for _ in range(rng.randint(2, 6)):
                t += rng.choice([0, 0, 1, 2, 5, 9])
                evs.append([t, rng.choice(g)])
            prods.append(evs)
        if k == 3:
            prods[2] = [[t, "E" if e == "A" else "F"] for t, e in prods[2]]      # third producer: its own names
        calls.append(["produce", prods])
        if rng.random() < 0.5:
            calls.append(["send_events", [rng.choice(EXT) for _ in range(rng.randint(1, 4))]])
    else:
        for _ in range(rng.randint(2, 5)):
            r = rng.random()
            if r < 0.65:
                size = max(0, rng.choice([n - 1, n, n + 1, n + 2, 2 * n + 1, 1, 2]))
                calls.append(["send_events", [rng.choice(EXT) for _ in range(size)]])
            else:
                calls.append(["send", rng.choice(EXT)])
    return {"id": f"c04-{flavor}-{seed}-{idx}{'-p' if produce else ''}", "machine": m, "guards": base["guards"], "calls": calls,
            "drain_step_ms": 1 if produce else 0, "features": base["features"]}


def _chain_machine(limit, chains, slow=None):
    """one state; `chains[X] = (names, fanout, loops)`: the external event X raises `fanout` events `names[0]`, each of
    which raises `names[1]`, ... (every raise marked `rz:`; the names follow the `r<A..D>` convention of `c04_machine`);
    `loops`: the last one raises itself (a runaway chain); `slow`: the external event GO runs a sleeping coroutine action"""
    on = {}
    for X, (names, fan, loops) in chains.items():
        seq = [X] + list(names)
        for d, ev in enumerate(seq):
            acts = [f"tr:a:{ev}:0"]
            nxt = seq[d + 1] if d + 1 < len(seq) else (ev if loops else None)
            for _ in range(fan if d == 0 else 1):
                if nxt is not None:
                    acts += ["rz:" + nxt, {"type": "raise", "params": {"event": {"type": nxt}}}]
            on[ev] = {"actions": acts}
    if slow:
        on["GO"] = {"actions": ["tr:a:GO:0", f"slow:{slow}:go"]}
    return {"id": "m", "initial": "a", "maxIterations": limit, "states": {"a": {"on": on}}}


def c04_burst_cases(flavor):
    """DIRECTED: bursts of N external events each starting an independent chain of 1..3 raised events, N below / at /
    above maxIterations = L; the same with two event names, with one event of the burst fanning out or looping beyond
    the bound (a cut is legitimate there), and (async) sent by producer tasks while a sleeping action keeps the loop busy"""
    cases = []

    def add(tag, m, calls, step=0):
        cases.append({"id": f"c04-burst-{flavor}-{tag}", "machine": m, "guards": {}, "events": [], "calls": [["start"]] + calls,
                      "drain_step_ms": step, "features": ["burst-of-chains"]})
    for L in (1, 2, 3, 4, 6):
        for length in (1, 2, 3):
            for N in sorted({max(1, L - 1), L, L + 1, L + 2, 2 * L + 1, 2 * L + 3}):
                add(f"L{L}-c{length}-N{N}", _chain_machine(L, {"A": (["rA", "rB", "rC"][:length], 1, False)}), [["send_events", ["A"] * N]])
        for N in (L + 1, 2 * L + 2):
            # two kinds of chain, lengths 1 and 2, interleaved; then one more call: the interpreter still answers
            add(f"L{L}-mix-N{N}", _chain_machine(L, {"A": (["rA"], 1, False), "B": (["rB", "rD"], 1, False)}),
                [["send_events", [("A", "B")[i % 2] for i in range(N)]], ["send", "A"]])
            # N sends in separate calls (each drained): never a burst
            add(f"L{L}-sends-N{N}", _chain_machine(L, {"A": (["rA"], 1, False)}), [["send", "A"] for _ in range(N)])
            # one event of the burst fans out / loops beyond the bound: cutting ITS tree is legitimate
            add(f"L{L}-fan-N{N}", _chain_machine(L, {"A": (["rA"], 1, False), "C": (["rC"], L + 1, False)}),
                [["send_events", ["A"] * (N - 1) + ["C"]]])
            add(f"L{L}-loop-N{N}", _chain_machine(L, {"A": (["rA"], 1, False), "D": (["rD"], 1, True)}),
                [["send_events", ["D"] + ["A"] * (N - 1)]])
            if flavor == "async":
                half = (N + 1) // 2
                add(f"L{L}-prod-N{N}", _chain_machine(L, {"A": (["rA"], 1, False), "B": (["rB"], 1, False)}, slow=20),
                    [["produce", [[[0, "GO"]] + [[1 + i, "A"] for i in range(half)], [[2 + i, "B"] for i in range(N - half)]]]], step=1)
    return cases


# ---------------------------------------------------------------------------------------------- runners
def run_c04_sync(case):
    return run_life_sync(case)


async def _run_c04_async(case):
    log, side, out = impl.BoundedLog(), [], []
    machine, it = _build("async", case, log, side)
    step = case.get("drain_step_ms", 0) / 1000.0
    for call in case["calls"]:
        log.clear()
        del side[:]
        impl._COUNTER.reset()
        _CUTPOS.begin(log)
        s0 = it.status
        exc = ""
        try:
            op = call[0]
            if op == "start":
                await it.start()
            elif op == "send":
                await it.send(call[1])
            elif op == "send_events":
                await it.send_events(list(call[1]))
            elif op == "stop":
                await it.stop()
            elif op == "produce":
                async def producer(evs):
                    last = 0
                    for t, e in evs:
                        await asyncio.sleep((t - last) / 1000.0)
                        last = t
                        side.append(("sent", e, len(log), it.status))
                        await it.send(e)
                tasks = [asyncio.ensure_future(producer(evs)) for evs in call[1]]
                await asyncio.gather(*tasks)
            else:
                raise ValueError(call)
        except impl.Hang:
            raise
        except Exception as x:
            exc = _exc_name(x)
        await _drain_life(it, step)
        o = _observe(it, "async", log, exc, impl._COUNTER.n)
        o.update(call=call, S0=s0, cuts=impl._COUNTER.cuts, cut_at=list(_CUTPOS.at), side=[list(x) for x in side])
        out.append(o)
    try:
        await it.stop()
    except Exception:
        pass
    return out


def run_c04_async(case):
    return _run_on_vloop(_run_c04_async, case)


# ---------------------------------------------------------------------------------------------- monitor
def _tag(r):
    return r.rsplit("@", 1)[1] if "@" in r and not r.startswith("#") else None


def _c04_all_self_sends_marked(machine):
    """static applicability of the causal-tree rule: every event the machine can send ITSELF is visible in the
    record log — each `raise` action is immediately preceded by its `rz:<name>` marker (what `c04_machine` produces)
    and nothing else enqueues behind the monitor's back (no final state: `done.state.*`; no `invoke`, no `after`)"""
    ok = [True]

    def chk(lst):
        items = lst if isinstance(lst, list) else ([] if lst is None else [lst])
        for k, a in enumerate(items):
            if _is_raise(a):
                name = _raised_name(a)
                if not isinstance(name, str) or k == 0 or items[k - 1] != "rz:" + name:
                    ok[0] = False
            elif isinstance(a, dict) and a.get("type") in ("sendTo", "send_to", "xstate.sendTo", "send", "xstate.send", "sendParent", "respond"):
                ok[0] = False

    def walk(n):
        if not isinstance(n, dict):
            return
        if n.get("type") == "final" or n.get("invoke") or n.get("after"):
            ok[0] = False
        for k in ("entry", "exit"):
            chk(n.get(k))
        buckets = list((n.get("on") or {}).values()) + [n[k] for k in ("always", "onDone") if k in n]
        for v in buckets:
            for t in (v if isinstance(v, list) else [v]):
                if isinstance(t, dict):
                    chk(t.get("actions"))
        for c in (n.get("states") or {}).values():
            walk(c)
    walk(machine)
    return ok[0]


def c04_causal_trees(o, q0, limit, ext):
    """The CAUSAL TREE of an external event: the events raised while it is processed, and, transitively, while those
    are processed. One call's record log `o["T"]` is replayed against a FIFO queue of (event, root) entries:

    * the queue starts with the accepted external events not yet received (`q0`), each the ROOT of its own tree; the
      sends of producer tasks (`side` entries `("sent", e, position, status)`) are appended at their log position;
      `start()` is the root of what the initial entry raises (a pseudo-root, as are records before the first `#recv:`);
    * `rz:r<X>` inside a segment: one more raised event in the segment's tree, appended to the queue;
    * `#recv:e` opens the segment of `e`. External events are received in FIFO order and never dropped (their own
      rules report it otherwise): the first queued `e` it is. A RAISED entry can only have been dropped by a bound
      cut logged after it was enqueued (`o["cut_at"]`: the log positions of the cuts; without them every entry is
      treated as possibly dropped): the received entry is one of the queued entries named `e` up to and including the
      first one enqueued since the last cut (which is certainly still queued, as is everything behind it). With a
      single candidate the attribution is exact - always so before the first cut. With several, which of them was
      received is not observable: the first is consumed (so the real queue stays a sub-sequence of the replayed
      one), and as soon as the segment raises something the candidates' trees are MERGED (union-find) - the size of
      a merged class is an upper bound of the size of every tree in it under every attribution consistent with
      FIFO order.

    Returns None when a received event cannot be attributed at all (never seen being enqueued, or overtaking an entry
    that must still be queued), else `{"trees": [[root event(s), upper bound of the tree size], ...], "largest",
    "raised", "lost": {name: n}}` with `lost` the raised events never received (counted by name: raised names
    `r<X>` are never sent from outside)."""
    T = o["T"]
    cut_at = o.get("cut_at")
    parent, size, label = [], [], []

    def new_root(name):
        parent.append(len(parent))
        size.append(0)
        label.append(name)
        return len(parent) - 1

    def find(x):
        while parent[x] != x:
            parent[x] = parent[parent[x]]
            x = parent[x]
        return x

    def union(xs):
        xs = sorted({find(x) for x in xs})
        for x in xs[1:]:
            parent[x] = xs[0]
            size[xs[0]] += size[x]
        return xs[0]

    Q = [(e, new_root(e), -1, True) for e in q0]          # (name, root, log position when enqueued, external?)
    sent = sorted(((x[2], x[1]) for x in o.get("side", []) if x[0] == "sent" and x[3] not in TERMINAL), key=lambda p: p[0])
    si = 0
    cur = [new_root("<start()>" if o["call"][0] == "start" else f"<{o['call'][0]}()>")]
    raised, recv_raised = {}, {}
    for k, r in enumerate(T):
        while si < len(sent) and sent[si][0] <= k:
            Q.append((sent[si][1], new_root(sent[si][1]), sent[si][0], True))
            si += 1
        if r.startswith("#recv:"):
            e = r[6:]
            if e in ext:
                idx = [i for i, x in enumerate(Q) if x[0] == e and x[3]][:1]
            else:
                last_cut = (1 << 60) if cut_at is None else max([p for p in cut_at if p <= k] or [-1])
                idx = []
                for i, x in enumerate(Q):
                    if x[3]:
                        continue
                    sure = x[2] >= last_cut        # enqueued since the last cut: still queued, nothing behind it was received
                    if x[0] == e:
                        idx.append(i)
                    if sure:
                        break
                recv_raised[e] = recv_raised.get(e, 0) + 1
            if not idx:
                return None
            cur = sorted({find(Q[i][1]) for i in idx})
            Q = [x for x in Q[:idx[0]] if x[3]] + Q[idx[0] + 1:]
        elif r.startswith("rz:"):
            name = r[3:].rsplit("@", 1)[0]
            root = union(cur)
            cur = [root]
            size[root] += 1
            raised[name] = raised.get(name, 0) + 1
            Q.append((name, root, k, False))
    classes = {}
    for x in range(len(parent)):
        classes.setdefault(find(x), []).append(label[x])
    trees = [["+".join(v), size[k]] for k, v in sorted(classes.items()) if not (v[0].startswith("<") and size[k] == 0)]
    lost = {n: c - recv_raised.get(n, 0) for n, c in sorted(raised.items()) if c > recv_raised.get(n, 0)}
    return {"trees": trees, "largest": max([t[1] for t in trees] or [0]), "raised": sum(raised.values()), "lost": lost}


def c04_monitor(case, obs, flavor):
    """every accepted external event received exactly once, in (per-sender) order; raised events received in
    raise order, after the macrostep that raised them; no record of another event inside a macrostep; a bound cut
    discards raised events only if the causal tree of ONE external event outgrew `maxIterations`
    (`short-chains-cut-by-burst`)"""
    out = []
    marked = _c04_all_self_sends_marked(case["machine"])
    ext = set()
    for c in case["calls"]:
        if c[0] == "send":
            ext.add(c[1])
        elif c[0] == "send_events":
            ext.update(c[1])
        elif c[0] == "produce":
            ext.update(e for evs in c[1] for _t, e in evs)
    pending = []            # accepted external events not yet received (FIFO), across calls
    carry = []              # raised events of COMPLETED macrosteps still queued when a call ended in a failure, across calls
    unknown = False         # a call left events queued and which raised ones are among them is not known: no order / loss rule for raised events until the queue was seen empty
    limit = case["machine"].get("maxIterations", 1000)

    def bad(kind, step, detail, **kw):
        out.append(dict({"kind": kind, "step": step, "detail": detail, "call": obs[step]["call"]}, **kw))

    for i, o in enumerate(obs):
        op, s0 = o["call"][0], o["S0"]
        T = o["T"]
        cut = bool(o["cuts"])
        accepted = []
        if op in ("send", "send_events"):
            evs = [o["call"][1]] if op == "send" else list(o["call"][1])
            ok = (s0 == "running") if flavor == "sync" else (s0 not in TERMINAL)
            accepted = evs if ok else []
        if op in ("restore", "stop"):
            pending = []
            carry = []
            unknown = False
        n_recv = sum(1 for r in T if r.startswith("#recv:"))
        if op == "produce":
            senders = [[e for _t, e in evs] for evs in o["call"][1]]
            sent = [x for x in o.get("side", []) if x[0] == "sent"]
            acc = {}
            for _k, e, _pos, st in sent:
                if st not in TERMINAL:
                    acc[e] = acc.get(e, 0) + 1
            recvs = [r[6:] for r in T if r.startswith("#recv:") and r[6:] in ext]
            if o["S"] == "running":
                for e, n in sorted(acc.items()):
                    if recvs.count(e) < n:
                        bad("external-event-lost", i, f"{e} accepted {n} time(s) from producer tasks, received {recvs.count(e)} time(s); "
                            f"bound cuts logged={o['cuts']}", lost=[e], received=n_recv, limit=limit, cut=cut)
                    elif recvs.count(e) > n:
                        bad("external-event-duplicated", i, f"{e} accepted {n} time(s) from producer tasks, received {recvs.count(e)} time(s)")
                if not cut:
                    names_of = [set(x) for x in senders]
                    for si, x in enumerate(senders):
                        if any(names_of[si] & names_of[sj] for sj in range(len(senders)) if sj != si):
                            continue
                        sub = [e for e in recvs if e in names_of[si]]
                        if sub != x and sorted(sub) == sorted(x):
                            bad("per-sender-order", i, f"producer {si} sent {x}, they were received in the order {sub}")
            # a sleeping coroutine action belongs to ONE macrostep: nothing is received while it sleeps
            open_at = None
            for x in o.get("side", []):
                if x[0] == "slow-begin":
                    open_at = x[2]
                elif x[0] == "slow-end" and open_at is not None:
                    inside = [r for r in T[open_at:x[2]] if r.startswith("#recv:")]
                    if inside:
                        bad("macrosteps-interleaved", i, f"{inside[:3]} received while the action {x[1]} of the current macrostep was still awaiting")
                    open_at = None
        else:
            pending = pending + accepted
        q0 = list(pending)      # the external events queued when this call's processing starts (causal-tree rule)
        # ---- scan the records of this call
        seg_ev = None
        skipped = []
        raised_pending = list(carry) if op != "produce" else []
        raised_seg = [-1] * len(raised_pending)      # the macrostep (index of its `#recv:` in this call) that raised each of them
        n_carried = len(raised_pending)
        carry = []
        seg_idx = -1
        open_tx = None          # first record of a transition (exit / transition action) whose `#t:` is still to come
        clean = not o["E"] and not o.get("X")   # no transition failed in this call (a failed one never reports `#t:`)
        for at, r in enumerate(T):
            if r.startswith("#t:"):
                open_tx = None
            elif r.startswith(("tr:", "alw:", "ex:", "done:")) and open_tx is None:
                open_tx = (at, r)
            if r.startswith("#recv:"):
                if open_tx is not None and clean:
                    # run-to-completion: an event is dequeued only between transitions, never inside one
                    bad("macrosteps-interleaved", i, f"{r[6:]!r} received at record {at} inside the transition that began with "
                        f"{open_tx[1]!r} at record {open_tx[0]} and had not completed (no on_transition yet)")
                open_tx = None
                e = r[6:]
                seg_ev = e
                seg_idx += 1
                if op != "produce" and e in ext:
                    if e in pending:
                        j = pending.index(e)
                        skipped += pending[:j]           # overtaken: lost unless they still arrive (then: reordered)
                        pending = pending[j + 1:]
                    elif e in skipped:
                        skipped.remove(e)
                        bad("external-event-reordered", i, f"{e} received at record {at} after an event that was accepted later")
                    else:
                        bad("external-event-duplicated", i, f"received {e} at record {at} but no accepted send of it is outstanding")
                elif op != "produce" and not cut and not unknown and e.startswith("r") and e[1:] in EXT:
                    if raised_pending and raised_pending[0] == e:
                        raised_pending.pop(0)
                        raised_seg.pop(0)
                    elif e in raised_pending:
                        bad("raised-event-reordered", i, f"received {e} at record {at} before {raised_pending[0]} which was raised earlier")
                        j = raised_pending.index(e)
                        raised_pending.pop(j)
                        raised_seg.pop(j)
                continue
            if r.startswith("rz:") and o["S"] == "running":
                raised_pending.append(r[3:].rsplit("@", 1)[0])
                raised_seg.append(seg_idx)
            tg = _tag(r)
            if tg is not None and seg_ev is not None and not r.startswith("svc:"):
                if tg not in (seg_ev, "", impl.canon_ev(seg_ev)):
                    bad("macrosteps-interleaved", i, f"record {r!r} (event {tg!r}) inside the macrostep of {seg_ev!r} at record {at}")
        # ---- end of the call: what was accepted must have been received, or still be queued
        if op != "produce":
            idle = o["S"] == "running" and (flavor == "sync" or o.get("L"))
            if idle:
                q = o.get("Q", 0)
                lost = skipped + (pending[:len(pending) - q] if len(pending) > q else [])
                if lost:
                    bad("external-event-lost", i, f"accepted and never received: {lost[:8]} ({len(lost)} event(s)); the interpreter is running and idle "
                        f"with {q} event(s) queued; {n_recv} event(s) were received in this call, maxIterations={limit}, bound cuts logged={o['cuts']}",
                        lost=lost, received=n_recv, burst=len(accepted), limit=limit, cut=cut)
                    pending = pending[len(pending) - q:] if q else []
                if not cut and not unknown and raised_pending and q == 0 and not o["E"] and not o.get("X"):
                    bad("raised-event-lost", i, f"raised and never received: {raised_pending[:6]}"
                        + (f" ({n_carried} of the expected ones were left queued by the failure that ended an earlier call)" if n_carried else ""))
                elif not cut and not unknown and flavor == "sync" and o["E"] and op in ("start", "send", "send_events"):
                    # the call ended because a macrostep failed and the error escaped: the LAST macrostep is the failed one.
                    # What COMPLETED macrosteps raised (and what an earlier failed call left queued) was accepted: it is
                    # still queued, behind nothing but itself and the external events not yet received
                    done = [n for n, sg in zip(raised_pending, raised_seg) if sg < seg_idx]
                    left = len(pending)
                    if q < left + len(done):
                        bad("raised-event-lost", i, f"the call ended with {o['E']} in the macrostep of {seg_ev!r}; events raised by macrosteps that had "
                            f"COMPLETED before it and not yet received: {done[:6]}; external events not yet received: {left}; but only {q} event(s) "
                            f"are still queued: what completed macrosteps raised was dropped with the failed one", failed_call=True)
                    elif q == left + len(raised_pending):
                        carry = list(raised_pending)
                    elif q == left + len(done):
                        carry = done
                unknown = q > 0 and len(carry) + len(pending) != q
            elif o["S"] in TERMINAL:
                pending = []
        # ---- the bound may cut a CHAIN, not a busy period: a cut that discards raised events is legitimate only if the
        #      causal tree of one single external event outgrew maxIterations (a burst of independent short chains never is)
        if (cut and marked and o["S"] == "running" and (flavor == "sync" or o.get("L")) and o.get("Q", 0) == 0
                and not o["E"] and not o.get("X") and (i == 0 or not obs[i - 1].get("Q", 0))):
            ct = c04_causal_trees(o, q0, limit, ext)
            if ct is not None and ct["lost"] and ct["largest"] <= limit:
                bad("short-chains-cut-by-burst", i,
                    f"a bound cut was logged ({o['cuts']}) and raised events were never received: {ct['lost']} "
                    f"({sum(ct['lost'].values())} of {ct['raised']} raised), although no external event's causal tree exceeds "
                    f"maxIterations={limit}: tree sizes (raised events per external event, in queue order) "
                    f"{[f'{a}:{b}' for a, b in ct['trees']][:24]}, largest {ct['largest']}; the interpreter is running and idle",
                    trees=ct["trees"][:64], largest=ct["largest"], lost=ct["lost"], raised=ct["raised"], limit=limit, cut=cut)
    return out


def _count_raising_bursts(c, obs, stats):
    """coverage of the causal-tree rule: calls with more than maxIterations events queued of which more than
    maxIterations raised something, and calls in which a cut was logged while every tree was within the bound"""
    n = c["machine"].get("maxIterations", 1000)
    for o in obs:
        if o["call"][0] not in ("send_events", "produce"):
            continue
        segs, cur = [], None
        for r in o["T"]:
            if r.startswith("#recv:"):
                cur = [r[6:], 0]
                segs.append(cur)
            elif r.startswith("rz:") and cur is not None:
                cur[1] += 1
        if sum(1 for e, k in segs if k and not e.startswith("r")) > n:
            stats["bursts_with_more_than_bound_raising_events"] = stats.get("bursts_with_more_than_bound_raising_events", 0) + 1
    return stats.get("bursts_with_more_than_bound_raising_events", 0)


def c04_ordering(tier, seed):
    scale = 6 if tier == "thorough" else 1
    ties, fails, samples = [], [], []
    evals = nontrivial = 0
    stats = {"bursts_below_bound": 0, "bursts_at_bound": 0, "bursts_above_bound": 0, "raised_events_received": 0, "producer_sends": 0}
    for flavor in ("sync", "async"):
        cases = [gen_c04_case(seed, flavor, i) for i in range(600 * scale)]
        cases += [c for c in c04_burst_cases(flavor) if not any(x[0] == "produce" for x in c["calls"])]
        ir = run_many(f"c04-{flavor}", cases)
        mr = run_life_model(cases, flavor)
        for c, (st, obs), (mst, mobs) in zip(cases, ir, mr):
            evals += 1
            if st != "ok":
                fails.append({"kind": "hang" if st == "hang" else "raw-exception", "flavor": flavor, "case": c, "detail": str(obs)[:200]})
                continue
            if mst != "ok":
                ties.append({"flavor": flavor, "case": c, "detail": f"model rejects the machine: {mobs}"})
                continue
            d = diff_life(obs, mobs, flavor, c)
            if d is not None:
                ties.append({"flavor": flavor, "case": c, "diff": d})
            n = c["machine"]["maxIterations"]
            for call in c["calls"]:
                if call[0] == "send_events":
                    k = "bursts_below_bound" if len(call[1]) < n else ("bursts_at_bound" if len(call[1]) == n else "bursts_above_bound")
                    stats[k] += 1
            stats["raised_events_received"] += sum(1 for o in obs for r in o["T"] if r.startswith("#recv:r"))
            _count_raising_bursts(c, obs, stats)
            pr = c04_monitor(c, obs, flavor)
            for p in pr[:2]:
                fails.append(dict(p, flavor=flavor, case=c))
            if d is None and not pr and sum(1 for o in obs for r in o["T"] if r.startswith("#recv:")) >= 3:
                nontrivial += 1
                if len(samples) < 2 and len(json.dumps(c)) < 2500:
                    samples.append({"case": c, "flavor": flavor})
    # producer tasks sending while a slow action of the run loop awaits (async engine, monitor only)
    pcases = [gen_c04_case(seed, "async", i, produce=True) for i in range(400 * scale)]
    pcases += [c for c in c04_burst_cases("async") if any(x[0] == "produce" for x in c["calls"])]
    pr_ = run_many("c04-async", pcases, timeout=10)
    for c, (st, obs) in zip(pcases, pr_):
        evals += 1
        if st != "ok":
            fails.append({"kind": "hang" if st == "hang" else "raw-exception", "flavor": "async", "case": c, "detail": str(obs)[:200]})
            continue
        stats["producer_sends"] += sum(1 for o in obs for x in o.get("side", []) if x[0] == "sent")
        for o in obs:
            inflight = False
            for x in o.get("side", []):
                if x[0] == "slow-begin":
                    inflight = True
                elif x[0] == "slow-end":
                    inflight = False
                elif x[0] == "sent" and inflight:
                    stats["producer_sends_during_a_macrostep"] = stats.get("producer_sends_during_a_macrostep", 0) + 1
        pr = c04_monitor(c, obs, "async")
        for p in pr[:2]:
            fails.append(dict(p, flavor="async", case=c))
        if not pr:
            nontrivial += 1
    known, fails = split_known("C04", fails)
    stats["bursts_of_short_chains_cut"] = sum(1 for p in known + fails if p.get("kind") == "short-chains-cut-by-burst")
    return {"evaluations": evals, "nontrivial": nontrivial, "ties": ties, "fails": fails, "known": known, "samples": samples, "exhaustive": False,
            "stats": stats,
            "what": f"[{json.dumps(stats)}; {len(known)} monitor failures explained by open findings] send_events bursts of sizes around maxIterations (below/at/above) and single sends on generated machines whose raise actions "
                    "raise distinguishable events, both engines, every observation diffed against the Lean model; async additionally 2-3 producer "
                    "tasks awaiting it.send() while sleeping coroutine actions of the run loop are in flight; monitor on #recv records: accepted "
                    "external events received exactly once in (per-sender) order, raised events in raise order, no foreign record inside a macrostep; causal trees (rz: markers + FIFO): a logged bound cut may discard "
                    "raised events only if ONE external event's tree of raised events outgrew maxIterations (directed bursts of 1-3-event chains "
                    "below/at/above the bound, mixed, with a legitimate fan-out, from producer tasks)"}


# ===================================================================================================
# C13, last sentence, per CAUSAL chain: "chains shorter than the bound run to their natural end"
# ===================================================================================================
def c13_bursts_of_short_chains(tier, seed):
    """The streams of C13 send one event at a time and let it drain: a chain there is the whole busy period. Here many
    chains share one busy period: `send_events` bursts (and async producer tasks) of events that each start a short
    chain - the directed family `c04_burst_cases` plus generated C04 cases - under the causal-tree rule of
    `c04_monitor` alone (`short-chains-cut-by-burst`: a logged cut that discards raised events although no external
    event's tree of raised events exceeds maxIterations); a hang is a failure; model vs code on every non-producer case."""
    scale = 4 if tier == "thorough" else 1
    ties, fails, samples = [], [], []
    evals = nontrivial = 0
    stats = {"calls_with_a_cut": 0, "cuts_with_every_tree_within_bound": 0}
    for flavor in ("sync", "async"):
        cases = c04_burst_cases(flavor) + [gen_c04_case(seed, flavor, 5000 + i) for i in range(150 * scale)]
        if flavor == "async":
            cases += [gen_c04_case(seed, "async", 5000 + i, produce=True) for i in range(60 * scale)]
        ir = run_many(f"c04-{flavor}", cases, timeout=10)
        plain = [c for c in cases if not any(x[0] == "produce" for x in c["calls"])]
        mres = dict(zip((c["id"] for c in plain), run_life_model(plain, flavor)))
        for c, (st, obs) in zip(cases, ir):
            evals += 1
            if st != "ok":
                fails.append({"kind": "hang" if st == "hang" else "raw-exception", "flavor": flavor, "case": c, "detail": str(obs)[:200]})
                continue
            if c["id"] in mres:
                mst, mobs = mres[c["id"]]
                if mst != "ok":
                    ties.append({"flavor": flavor, "case": c, "detail": f"model rejects the machine: {mobs}"})
                    continue
                d = diff_life(obs, mobs, flavor, c)
                if d is not None:
                    ties.append({"flavor": flavor, "case": c, "diff": d})
            pr = [p for p in c04_monitor(c, obs, flavor) if p["kind"] == "short-chains-cut-by-burst"]
            for p in pr[:2]:
                fails.append(dict(p, flavor=flavor, case=c))
            ncut = sum(1 for o in obs if o["cuts"])
            stats["calls_with_a_cut"] += ncut
            stats["cuts_with_every_tree_within_bound"] += len(pr)
            if ncut or _count_raising_bursts(c, obs, {}) or any(len(o["call"]) > 1 and isinstance(o["call"][1], list) and len(o["call"][1]) > 1 for o in obs):
                nontrivial += 1
                if not pr and len(samples) < 2 and len(json.dumps(c)) < 2500:
                    samples.append({"case": c, "flavor": flavor})
    return {"evaluations": evals, "nontrivial": nontrivial, "ties": ties, "fails": fails, "samples": samples, "exhaustive": False, "stats": stats,
            "what": f"[{json.dumps(stats)}] many chains in ONE busy period: directed send_events bursts of N events each starting a chain of 1-3 raised "
                    "events (N below/at/above maxIterations in 1..6, two chain kinds mixed, one event fanning out or looping beyond the bound, async "
                    "producer tasks against a sleeping action) and generated C04 cases, both engines; monitor = causal trees from #recv segments, "
                    "rz: markers and FIFO order: a logged cut may discard raised events only if ONE external event's tree outgrew maxIterations; "
                    "non-producer cases diffed against the Lean lifecycle model"}
