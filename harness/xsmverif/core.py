"""Shared machinery of every check: build + audit (obligation P), pooled execution of the real
engines and the model (obligation T), monitors (obligation O), known findings, verdict, evidence."""
from __future__ import annotations
import json, os, re, subprocess, sys, time, hashlib, multiprocessing as mp, traceback, collections

HERE = os.path.dirname(os.path.abspath(__file__))
VERIF = os.path.normpath(os.path.join(HERE, "..", ".."))
LEAN_DIR = os.path.join(VERIF, "lean")
EVIDENCE_DIR = os.path.join(VERIF, "evidence")
WORK = os.path.join(VERIF, ".work")
ALLOWED_AXIOMS = {"propext", "Classical.choice", "Quot.sound"}
FORBIDDEN_RE = re.compile(r"\bsorry\b|\badmit\b|^axiom |native_decide|bv_decide|implemented_by|\bunsafe |maxHeartbeats 0", re.M)

from . import tables, modelio  # noqa: E402


class CheckError(Exception):
    """internal harness error (exit 2)"""


def sh(cmd, cwd=None, timeout=3600):
    r = subprocess.run(cmd, cwd=cwd, capture_output=True, text=True, timeout=timeout)
    return r.returncode, r.stdout + r.stderr


# ------------------------------------------------------------------------------------------------ P
def strip_comments(src: str) -> str:
    src = re.sub(r"/-.*?-/", "", src, flags=re.S)
    return re.sub(r"--.*", "", src)


def property_theorems(prop):
    """theorem names declared in Xsm/Properties/<prop>.lean (fully qualified)"""
    path = os.path.join(LEAN_DIR, "Xsm", "Properties", f"{prop}.lean")
    if not os.path.exists(path):
        return []
    src = strip_comments(open(path, encoding="utf-8").read())
    ns = re.search(r"^namespace\s+(\S+)", src, re.M)
    prefix = (ns.group(1) + ".") if ns else ""
    return [prefix + m.group(1) for m in re.finditer(r"^theorem\s+([^\s:({\[]+)", src, re.M)]


def build_and_audit(prop, thorough=False, extra_targets=()):
    """returns dict(ok, stage, log, theorems, axioms, tables_changed, table_error)"""
    res = {"ok": False, "stage": "tables", "log": "", "theorems": [], "axioms": {}, "tables_changed": False}
    try:
        changed, tbl = tables.regenerate(LEAN_DIR)
        res["tables_changed"] = changed
        res["tables"] = tbl
    except tables.TableError as e:
        res["log"] = f"table extractor: {e}"
        return res
    except Exception as e:
        res["log"] = f"table extractor crashed: {e!r}"
        return res
    res["stage"] = "build"
    mod = f"Xsm.Properties.{prop}"
    rc, out = sh(["lake", "build", mod, "driver", *extra_targets], cwd=LEAN_DIR)
    if rc != 0:
        res["log"] = out[-6000:]
        # which declaration failed?
        m = re.findall(r"error: (\S+?):(\d+):\d+: (.*)", out)
        res["failed_at"] = [f"{a}:{b}: {c[:160]}" for a, b, c in m[:5]]
        return res
    res["stage"] = "grep"
    bad = []
    for root, _d, files in os.walk(os.path.join(LEAN_DIR, "Xsm")):
        for f in files:
            if f.endswith(".lean"):
                src = strip_comments(open(os.path.join(root, f), encoding="utf-8").read())
                for m in FORBIDDEN_RE.finditer(src):
                    bad.append(f"{f}: {m.group(0).strip()}")
    if bad:
        res["log"] = "forbidden constructs: " + "; ".join(bad[:10])
        return res
    res["stage"] = "axioms"
    thms = property_theorems(prop)
    res["theorems"] = thms
    if not thms:
        res["log"] = f"no theorems found for {prop}"
        return res
    os.makedirs(WORK, exist_ok=True)
    audit = os.path.join(WORK, f"Audit_{prop}.lean")
    with open(audit, "w") as f:
        f.write(f"import {mod}\n" + "".join(f"#print axioms {t}\n" for t in thms))
    rc, out = sh(["lake", "env", "lean", audit], cwd=LEAN_DIR)
    if rc != 0:
        res["log"] = out[-3000:]
        return res
    axioms = {}
    for m in re.finditer(r"'(\S+)' depends on axioms: \[([^\]]*)\]", out.replace("\n", " ")):
        axioms[m.group(1)] = [a.strip() for a in m.group(2).split(",") if a.strip()]
    for m in re.finditer(r"'(\S+)' does not depend on any axioms", out):
        axioms[m.group(1)] = []
    res["axioms"] = axioms
    missing = [t for t in thms if t not in axioms]
    extra = {t: [a for a in ax if a not in ALLOWED_AXIOMS] for t, ax in axioms.items()}
    extra = {t: a for t, a in extra.items() if a}
    if missing or extra:
        res["log"] = f"axiom audit: missing={missing} non-standard={extra}"
        return res
    if thorough:
        res["stage"] = "leanchecker"
        rc, out = sh(["lake", "env", "leanchecker", mod], cwd=LEAN_DIR, timeout=3600)
        res["leanchecker"] = "ok" if rc == 0 else out[-1500:]
        if rc != 0:
            res["log"] = "leanchecker: " + out[-1500:]
            return res
    res["ok"] = True
    res["stage"] = "done"
    return res


# ------------------------------------------------------------------------------------------------ T
def _impl_worker(args):
    flavor, case, timeout = args
    from . import impl
    try:
        return impl.run_guarded(flavor, case, timeout)
    except impl.Hang:
        # the repeating watchdog fired once more while run_guarded was unwinding: still a hang, not a crash
        import signal
        for _ in range(5):
            try:
                signal.setitimer(signal.ITIMER_REAL, 0)
                break
            except impl.Hang:
                continue
        return ("hang", None)
    except BaseException as e:  # never let a worker die silently
        return ("crash", f"HARNESS:{type(e).__name__}: {e}"[:300])


_POOL = None


def pool():
    global _POOL
    if _POOL is None:
        n = max(2, min(14, (os.cpu_count() or 4) - 2))
        _POOL = mp.get_context("fork").Pool(n, maxtasksperchild=200)
    return _POOL


def close_pool():
    global _POOL
    if _POOL is not None:
        _POOL.terminate()
        _POOL = None


def impl_isolated(args):
    """one case on the real engine in a WORKER process (the main process never runs library code: a library that hangs
    may leave threads behind that keep spinning, and in the main process they would slow the whole check down);
    the pool is re-created when needed - callers that are done with it call close_pool()"""
    _flavor, _case, timeout = args
    try:
        return pool().apply_async(_impl_worker, (args,)).get(timeout * 2 + 20)
    except mp.TimeoutError:
        close_pool()
        return ("hang", None)


def run_impl_many(flavor, cases, timeout=6, slow_retries=4):
    """run every case on the real engine in the worker pool; a worker that stops answering (a hang the
    in-process watchdog could not unwind) makes the whole batch fall back to one-by-one execution.
    A case the (short) watchdog cut is run once more on its own with a generous watchdog before it is reported as a
    hang - a loaded machine can starve a worker for seconds - for at most `slow_retries` cases per call, so that a
    library that really hangs on many inputs does not cost minutes."""
    res = _run_impl_many(flavor, cases, timeout)
    left = slow_retries
    for i, (st, _o) in enumerate(res):
        if st == "hang" and left > 0:
            left -= 1
            try:
                res[i] = pool().apply_async(_impl_worker, ((flavor, cases[i], 30),)).get(45)
            except mp.TimeoutError:
                close_pool()
    return res


def _run_impl_many(flavor, cases, timeout=6):
    args = [(flavor, c, timeout) for c in cases]
    budget = 60 + (timeout + 1) * (len(cases) / 4 + 1)
    try:
        return pool().map_async(_impl_worker, args, chunksize=4).get(budget)
    except mp.TimeoutError:
        close_pool()
        out = []
        for a in args:
            try:
                out.append(pool().apply_async(_impl_worker, (a,)).get(timeout * 3 + 10))
            except mp.TimeoutError:
                close_pool()
                out.append(("hang", None))
        return out


def run_model_many(flavor, cases, chunk=200):
    out = []
    for i in range(0, len(cases), chunk):
        out.extend(modelio.run_model_batch(cases[i:i + chunk], flavor))
    return out


def truncate_at(obs, point):
    """cut an observation list just before the first illegal configuration `point` = (step, at)"""
    if point is None:
        return obs
    step, at = point
    res = [dict(o) for o in obs[:step]]
    if at is not None:
        o = dict(obs[step])
        o = {"C": [], "S": "", "T": o["T"][:at], "H": {}, "E": "", "X": 0}
        res.append(o)
    return res


# ------------------------------------------------------------------------------------------------ findings
def load_findings():
    p = os.path.join(VERIF, "known_findings.json")
    if not os.path.exists(p):
        return {"open": [], "fixed": []}
    return json.load(open(p))


def write_replay(prop, name, payload):
    d = os.path.join(WORK, "replays")
    os.makedirs(d, exist_ok=True)
    path = os.path.join(d, f"{prop}_{name}.json")
    with open(path, "w") as f:
        json.dump(payload, f, indent=1, sort_keys=True)
    return path


# ------------------------------------------------------------------------------------------------ evidence
def write_evidence(prop, tier, seed, coverage, wall, violations, assumptions):
    os.makedirs(EVIDENCE_DIR, exist_ok=True)
    ev = {
        "property_id": prop, "tier": tier, "seed": seed, "level": "proof",
        "coverage": coverage, "assumptions": assumptions, "wall_s": round(wall, 2), "violations": violations,
    }
    with open(os.path.join(EVIDENCE_DIR, f"{prop}.json"), "w") as f:
        json.dump(ev, f, indent=1, sort_keys=True)


def case_digest(case):
    return hashlib.sha1(json.dumps({k: case[k] for k in ("machine", "guards") if k in case} | {"ops": case.get("ops", case.get("events"))}, sort_keys=True).encode()).hexdigest()[:12]
