"""Translator for the literal tables the semantics depends on.

Parses /repo/src with `ast` on every run and rewrites
lean/Xsm/Generated/Tables.lean.  The model's definitions (descriptor matching,
built-in action aliases, bounds, status gates) *use* these tables, and theorems
in Xsm/Properties are stated over them, so an edit to one of the literals in the
source either keeps `lake build` green (harmless) or breaks a named theorem.
A table that can no longer be located is reported (broken tie), never defaulted.
"""
from __future__ import annotations
import ast, os, sys, json

SRC = os.environ.get("XSM_SRC", "/repo/src/xstate_statemachine")


class TableError(Exception):
    pass


def _parse(name):
    with open(os.path.join(SRC, name), encoding="utf-8") as f:
        return ast.parse(f.read())


def _func(tree, cls, fn):
    found = None
    for node in ast.walk(tree):
        if isinstance(node, ast.ClassDef) and node.name == cls:
            for b in node.body:
                if isinstance(b, (ast.FunctionDef, ast.AsyncFunctionDef)) and b.name == fn:
                    found = b          # the last definition wins (earlier ones are @overload stubs)
    if found is None:
        raise TableError(f"{cls}.{fn} not found")
    return found


def _startswith_tuples(fn):
    """all tuple-of-string arguments of `.startswith((...))` calls in a function, in source order"""
    out = []
    for node in ast.walk(fn):
        if isinstance(node, ast.Call) and isinstance(node.func, ast.Attribute) and node.func.attr == "startswith":
            if node.args and isinstance(node.args[0], ast.Tuple):
                vals = [e.value for e in node.args[0].elts if isinstance(e, ast.Constant) and isinstance(e.value, str)]
                if len(vals) == len(node.args[0].elts):
                    out.append((node.lineno, vals))
    out.sort()
    return [v for _, v in out]


def _module_consts(tree):
    env = {}
    for node in tree.body:
        tgt = val = None
        if isinstance(node, ast.Assign) and len(node.targets) == 1 and isinstance(node.targets[0], ast.Name):
            tgt, val = node.targets[0].id, node.value
        elif isinstance(node, ast.AnnAssign) and isinstance(node.target, ast.Name) and node.value is not None:
            tgt, val = node.target.id, node.value
        if tgt is None:
            continue
        try:
            env[tgt] = _eval(val, env)
        except Exception:
            pass
    return env


def _eval(node, env):
    if isinstance(node, ast.Constant):
        return node.value
    if isinstance(node, ast.Name):
        return env[node.id]
    if isinstance(node, ast.Dict):
        return {_eval(k, env): _eval(v, env) for k, v in zip(node.keys, node.values)}
    if isinstance(node, (ast.Tuple, ast.List, ast.Set)):
        return [_eval(e, env) for e in node.elts]
    if isinstance(node, ast.Call) and isinstance(node.func, ast.Name) and node.func.id in ("frozenset", "set", "tuple", "list") and len(node.args) == 1:
        return _eval(node.args[0], env)
    raise ValueError("unsupported")


def _status_tuples(fn):
    """tuples of strings compared with `self.status in (...)` / `not in`"""
    out = []
    for node in ast.walk(fn):
        if isinstance(node, ast.Compare) and isinstance(node.left, ast.Attribute) and node.left.attr == "status":
            for op, comp in zip(node.ops, node.comparators):
                if isinstance(comp, ast.Tuple):
                    out.append((node.lineno, type(op).__name__, [e.value for e in comp.elts if isinstance(e, ast.Constant)]))
                elif isinstance(comp, ast.Constant):
                    out.append((node.lineno, type(op).__name__, [comp.value]))
    out.sort()
    return [(o, v) for _, o, v in out]


def extract():
    t = {}
    base = _parse("base_interpreter.py")
    md = _startswith_tuples(_func(base, "BaseInterpreter", "_matching_descriptors"))
    if len(md) != 1:
        raise TableError("internal-event prefix tuple in _matching_descriptors not found")
    t["internalPrefixes"] = md[0]
    ce = _startswith_tuples(_func(base, "BaseInterpreter", "_collect_eligible_transitions"))
    if len(ce) != 1:
        raise TableError("transient-check prefix tuple in _collect_eligible_transitions not found")
    t["nonTransientPrefixes"] = ce[0]
    mad = None
    for node in ast.walk(base):
        if isinstance(node, ast.ClassDef) and node.name == "BaseInterpreter":
            for b in node.body:
                if isinstance(b, ast.AnnAssign) and isinstance(b.target, ast.Name) and b.target.id == "MAX_ACTION_DEPTH":
                    mad = b.value.value
                if isinstance(b, ast.Assign) and any(isinstance(x, ast.Name) and x.id == "MAX_ACTION_DEPTH" for x in b.targets):
                    mad = b.value.value
    if not isinstance(mad, int):
        raise TableError("MAX_ACTION_DEPTH not found")
    t["maxActionDepth"] = mad
    actions = _module_consts(_parse("actions.py"))
    if "BUILTIN_ACTION_ALIASES" not in actions:
        raise TableError("BUILTIN_ACTION_ALIASES not found")
    t["builtinAliases"] = sorted(actions["BUILTIN_ACTION_ALIASES"].items())
    for k in ("RAISE", "ASSIGN", "CHOOSE", "PURE", "ENQUEUE_ACTIONS", "CANCEL", "SEND_TO", "SEND_PARENT", "FORWARD_TO", "ESCALATE", "STOP_CHILD", "SPAWN_CHILD", "LOG", "EMIT"):
        if k not in actions:
            raise TableError(f"actions.{k} not found")
        t["act_" + k] = actions[k]
    models = _module_consts(_parse("models.py"))
    for k in ("COMPOSITE_GUARD_TYPES", "STATE_IN_GUARD_TYPE"):
        if k not in models:
            raise TableError(f"models.{k} not found")
    t["compositeGuardTypes"] = sorted(models["COMPOSITE_GUARD_TYPES"])
    t["stateInGuardType"] = models["STATE_IN_GUARD_TYPE"]
    # default maxIterations: `int(config.get("maxIterations", N))` in models.py
    dmi = None
    for node in ast.walk(_parse("models.py")):
        if isinstance(node, ast.Call) and isinstance(node.func, ast.Attribute) and node.func.attr == "get" and len(node.args) == 2:
            if isinstance(node.args[0], ast.Constant) and node.args[0].value == "maxIterations" and isinstance(node.args[1], ast.Constant):
                dmi = node.args[1].value
    if not isinstance(dmi, int):
        raise TableError("default maxIterations not found")
    t["defaultMaxIterations"] = dmi
    sync = _parse("sync_interpreter.py")
    asy = _parse("interpreter.py")
    t["syncSendGate"] = _status_tuples(_func(sync, "SyncInterpreter", "send"))
    t["asyncSendGate"] = _status_tuples(_func(asy, "Interpreter", "send"))
    t["syncStopGate"] = _status_tuples(_func(sync, "SyncInterpreter", "stop"))[:1]
    t["asyncStopGate"] = _status_tuples(_func(asy, "Interpreter", "stop"))[:1]
    t["completeGate"] = _status_tuples(_func(base, "BaseInterpreter", "_complete"))[:1]
    t["failGate"] = _status_tuples(_func(base, "BaseInterpreter", "_fail"))[:1]
    return t


def _s(x):
    return json.dumps(x, ensure_ascii=False)


def _ls(xs):
    return "[" + ", ".join(_s(x) for x in xs) + "]"


def _gate(g):
    # list of (op, [statuses]) -> Lean list of (String × List String)
    return "[" + ", ".join(f"({_s(op)}, {_ls(v)})" for op, v in g) + "]"


def render(t):
    L = []
    L.append("/- GENERATED by harness/xsmverif/tables.py from /repo/src on every run. Do not edit. -/")
    L.append("namespace XSM.Tables")
    L.append("")
    L.append(f"def internalPrefixes : List String := {_ls(t['internalPrefixes'])}")
    L.append(f"def nonTransientPrefixes : List String := {_ls(t['nonTransientPrefixes'])}")
    L.append(f"def maxActionDepth : Nat := {t['maxActionDepth']}")
    L.append(f"def defaultMaxIterations : Nat := {t['defaultMaxIterations']}")
    L.append("def builtinAliases : List (String × String) := [" + ", ".join(f"({_s(k)}, {_s(v)})" for k, v in t["builtinAliases"]) + "]")
    for k in sorted(x for x in t if x.startswith("act_")):
        L.append(f"def {k} : String := {_s(t[k])}")
    L.append(f"def compositeGuardTypes : List String := {_ls(t['compositeGuardTypes'])}")
    L.append(f"def stateInGuardType : String := {_s(t['stateInGuardType'])}")
    for k in ("syncSendGate", "asyncSendGate", "syncStopGate", "asyncStopGate", "completeGate", "failGate"):
        L.append(f"def {k} : List (String × List String) := {_gate(t[k])}")
    L.append("")
    L.append("end XSM.Tables")
    return "\n".join(L) + "\n"


def regenerate(lean_dir):
    """returns (changed: bool, tables: dict); raises TableError when a table is gone"""
    t = extract()
    txt = render(t)
    path = os.path.join(lean_dir, "Xsm", "Generated", "Tables.lean")
    old = None
    if os.path.exists(path):
        with open(path, encoding="utf-8") as f:
            old = f.read()
    if old != txt:
        os.makedirs(os.path.dirname(path), exist_ok=True)
        with open(path, "w", encoding="utf-8") as f:
            f.write(txt)
    return old != txt, t


if __name__ == "__main__":
    ch, t = regenerate(sys.argv[1] if len(sys.argv) > 1 else os.path.join(os.path.dirname(__file__), "..", "..", "lean"))
    print("changed" if ch else "unchanged")
    print(json.dumps(t, indent=1)[:3000])
