"""names of the built-in actions (read from the library at import time: the harness runs against /repo/src)"""
from xstate_statemachine.actions import BUILTIN_ACTION_ALIASES
BUILTINS = set(BUILTIN_ACTION_ALIASES)
