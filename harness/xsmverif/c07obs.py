"""C07, clause "An exception raised by a plugin hook, subscriber or emit listener changes nothing at all"
(monitor on the real code, both engines; observers have no write access in the model, so this clause cannot be
stated there - DESIGN §6 C07).

Single-fault injection at OBSERVER call sites: a generated case is run once with a plugin implementing every hook, a
subscriber and a wildcard emit listener, all of them only counting their calls (N call sites in call order); then it
is run again with the k-th observer call raising, for a sample of k (quick) / every k up to a cap (thorough).  The run
with the fault must be indistinguishable from the run without it at every observation point: configuration, status,
context, the ordered list of executed actions and hook records, the error flag - and nothing may escape send().
Machines: the generator's `actions` / `faults` / `done` / `history` profiles (failing actions give `on_action_error`
sites, guards give `on_guard_evaluated` sites) plus `emit` actions grafted onto some action lists (listener sites).
"""
from __future__ import annotations
import asyncio
import copy
import json
import random

from . import core, gen, impl

HOOKS = ("on_interpreter_start", "on_interpreter_stop", "on_event_received", "on_transition", "on_action_execute", "on_action_error",
         "on_guard_evaluated", "on_service_start", "on_service_done", "on_service_error")


class ObserverFault(Exception):
    pass


def _graft_emit(machine, rng):
    """append an `emit` action to some action lists (entry / exit / transition), so that emit listeners are called"""
    m = copy.deepcopy(machine)
    n_emit = [0]

    def lst(v):
        if isinstance(v, list) and rng.random() < 0.3:
            n_emit[0] += 1
            return v + [{"type": rng.choice(["emit", "xstate.emit"]), "params": {"event": {"type": f"note{n_emit[0] % 3}"}}}]
        return v

    def walk(n):
        for k in ("entry", "exit"):
            if k in n:
                n[k] = lst(n[k])
        for ev, v in (n.get("on") or {}).items():
            for t in (v if isinstance(v, list) else [v]):
                if isinstance(t, dict) and isinstance(t.get("actions"), list):
                    t["actions"] = lst(t["actions"])
        for c in (n.get("states") or {}).values():
            walk(c)
    walk(m)
    return m, n_emit[0]


def _runner(flavor, case, fault_at):
    from xstate_statemachine import Interpreter, PluginBase, SyncInterpreter, create_machine
    from xstate_statemachine.exceptions import XStateMachineError
    log, out, sites = [], [], []
    st = {"n": 0}

    def tick(kind):
        st["n"] += 1
        sites.append(kind)
        if st["n"] == fault_at:
            raise ObserverFault(f"{kind} #{st['n']}")

    class P(PluginBase):
        def on_transition(self, interpreter, from_states, to_states, transition):
            if transition.event not in impl.INIT_NAMES:
                log.append("#t:" + ",".join(sorted(n.id for n in interpreter._active_state_nodes)))
            tick("plugin:on_transition")

        def on_event_received(self, interpreter, event):
            log.append("#recv:" + event.type)
            tick("plugin:on_event_received")

        def on_action_error(self, interpreter, action, error):
            log.append("#aerr:" + action.type)
            tick("plugin:on_action_error")

        def on_interpreter_start(self, interpreter):
            tick("plugin:on_interpreter_start")

        def on_interpreter_stop(self, interpreter):
            tick("plugin:on_interpreter_stop")

        def on_action_execute(self, interpreter, action):
            tick("plugin:on_action_execute")

        def on_guard_evaluated(self, interpreter, guard_name, event, result):
            tick("plugin:on_guard_evaluated")

    machine = create_machine(copy.deepcopy(case["machine"]), logic=impl.mklogic(log, case["guards"]))

    def obs(it, err=""):
        o = impl.observe(it, log, err, impl._COUNTER.n)
        return {k: o[k] for k in ("C", "S", "T", "H", "E", "X", "K")}

    def attach(it):
        it.use(P())
        it.subscribe(lambda i: tick("subscriber"))
        it.on("*", lambda e: tick("emit-listener"))

    if flavor == "sync":
        it = SyncInterpreter(machine)
        attach(it)
        impl._COUNTER.reset()
        try:
            it.start()
            out.append(obs(it))
        except XStateMachineError as x:
            out.append(obs(it, type(x).__name__))
        except ObserverFault as x:
            out.append(obs(it, "OBSERVER-FAULT-ESCAPED:" + str(x)))
        for op in impl.case_ops(case):
            log.clear()
            impl._COUNTER.reset()
            try:
                it.send(impl._mk_event(op))
                out.append(obs(it))
            except XStateMachineError as x:
                out.append(obs(it, type(x).__name__))
            except ObserverFault as x:
                out.append(obs(it, "OBSERVER-FAULT-ESCAPED:" + str(x)))
        log.clear()
        try:
            it.stop()
            out.append(obs(it))
        except ObserverFault as x:
            out.append(obs(it, "OBSERVER-FAULT-ESCAPED:" + str(x)))
        return {"obs": out, "sites": sites}

    async def go():
        it = Interpreter(machine)
        attach(it)
        impl._COUNTER.reset()
        try:
            await it.start()
            await impl._drain(it)
            out.append(obs(it))
        except XStateMachineError as x:
            out.append(obs(it, type(x).__name__))
            return
        except ObserverFault as x:
            out.append(obs(it, "OBSERVER-FAULT-ESCAPED:" + str(x)))
        for op in impl.case_ops(case):
            log.clear()
            impl._COUNTER.reset()
            try:
                await it.send(impl._mk_event(op))
                await impl._drain(it)
                out.append(obs(it))
            except ObserverFault as x:
                out.append(obs(it, "OBSERVER-FAULT-ESCAPED:" + str(x)))
        log.clear()
        try:
            await it.stop()
            out.append(obs(it))
        except ObserverFault as x:
            out.append(obs(it, "OBSERVER-FAULT-ESCAPED:" + str(x)))
    loop = impl.VirtualLoop()
    loop.set_exception_handler(lambda _l, _c: None)
    asyncio.set_event_loop(loop)
    try:
        loop.run_until_complete(go())
    finally:
        try:
            for t in asyncio.all_tasks(loop):
                t.cancel()
            loop.run_until_complete(asyncio.sleep(0))
        except BaseException:
            pass
        loop.close()
        asyncio.set_event_loop(None)
    return {"obs": out, "sites": sites}


def _worker(args):
    flavor, case, fault_at, timeout = args
    impl.RUNNERS["c07obs"] = lambda _c: _runner(flavor, case, fault_at)
    try:
        return impl.run_guarded("c07obs", None, timeout)
    except BaseException as e:      # noqa: BLE001
        return ("crash", f"HARNESS:{type(e).__name__}: {e}"[:300])
    finally:
        impl.RUNNERS.pop("c07obs", None)


def _first_diff(a, b):
    for i, (x, y) in enumerate(zip(a, b)):
        if x != y:
            keys = [k for k in x if x[k] != y.get(k)]
            d = {"step": i, "fields": keys}
            for k in keys[:2]:
                if k == "T":
                    j = next((q for q, (p, r) in enumerate(zip(x[k], y[k])) if p != r), min(len(x[k]), len(y[k])))
                    d["T_at"] = j
                    d["without_fault"] = x[k][j:j + 3]
                    d["with_fault"] = y[k][j:j + 3]
                else:
                    d[k] = {"without_fault": x[k], "with_fault": y[k]}
            return d
    if len(a) != len(b):
        return {"step": min(len(a), len(b)), "fields": ["len"]}
    return None


def cases_for(tier, seed):
    rng = random.Random(seed * 7919 + 5)
    n = 10 if tier == "quick" else 60
    out = []
    for prof in ("actions", "faults", "done", "history"):
        for i in range(n):
            c = gen.gen_case(seed, prof, 21000 + i)
            if "missing-action" in c["features"] or "async-action" in c["features"]:
                continue
            m, n_emit = _graft_emit(c["machine"], rng)
            c = dict(c, machine=m, n_emit=n_emit)
            out.append(c)
    return out


def c07_observer_faults(tier, seed):
    rng = random.Random(seed * 104729 + 3)
    per_case = 8 if tier == "quick" else 40
    cases = cases_for(tier, seed)
    fails, samples = [], []
    evals = nontrivial = 0
    site_hist = {}
    for flavor in ("sync", "async"):
        base = core.pool().map(_worker, [(flavor, c, None, 20) for c in cases], chunksize=2)
        jobs = []
        for ci, (c, (st, r)) in enumerate(zip(cases, base)):
            if st == "hang":
                st, r = _worker((flavor, c, None, 60))
            if st != "ok":
                continue                # a case the engines refuse or that hangs without any fault is not this check's business
            n = len(r["sites"])
            if n == 0:
                continue
            ks = sorted(set([1, n] + [rng.randint(1, n) for _ in range(per_case)]))[:per_case + 2]
            # one position per KIND of site at least
            first_of = {}
            for k, kind in enumerate(r["sites"], 1):
                first_of.setdefault(kind, k)
            ks = sorted(set(ks) | set(first_of.values()))
            for k in ks:
                jobs.append((ci, k, r))
        res = core.pool().map(_worker, [(flavor, cases[ci], k, 20) for ci, k, _r in jobs], chunksize=4)
        for (ci, k, r0), (st, r1) in zip(jobs, res):
            evals += 1
            kind = r0["sites"][k - 1]
            site_hist[kind] = site_hist.get(kind, 0) + 1
            c = cases[ci]
            key = {"machine": c["machine"], "guards": c["guards"], "events": c["events"], "fault_at": k, "site": kind}
            if st == "hang":
                st, r1 = _worker((flavor, c, k, 60))
            if st != "ok":
                fails.append({"kind": "observer-fault-changes-termination", "flavor": flavor, "case": key, "site": kind,
                              "detail": f"with the {k}-th observer call ({kind}) raising the run ends in {st}: {str(r1)[:200]}"})
                continue
            esc = next((o["E"] for o in r1["obs"] if str(o["E"]).startswith("OBSERVER-FAULT-ESCAPED")), None)
            d = _first_diff(r0["obs"], r1["obs"])
            if esc:
                fails.append({"kind": "observer-fault-escapes", "flavor": flavor, "case": key, "site": kind,
                              "detail": f"the exception raised by the {k}-th observer call ({kind}) escaped to the caller: {esc}"})
            elif d is not None:
                fails.append({"kind": "observer-fault-changes-run", "flavor": flavor, "case": key, "site": kind, "difference": d,
                              "detail": f"with the {k}-th observer call ({kind}) raising, observation {d['step']} differs in {d['fields']}: {json.dumps(d)[:300]}"})
            else:
                nontrivial += 1
                if len(samples) < 2 and len(json.dumps(c["machine"])) < 1500:
                    samples.append({"flavor": flavor, "fault_at": k, "site": kind, "observer_calls": len(r0["sites"])})
    return {"evaluations": evals, "nontrivial": nontrivial, "ties": [], "fails": fails, "samples": samples, "exhaustive": False,
            "what": f"single-fault injection at OBSERVER call sites (every plugin hook, a subscriber, a wildcard emit listener), both engines, "
                    f"{len(cases)} generated machines with grafted emit actions: the run with the k-th observer call raising must equal the run without "
                    f"the fault at every observation point and nothing may escape; faults injected per kind of site: {json.dumps(site_hist, sort_keys=True)}"}


def replay_problems(payload, flavor):
    out = []
    c = {"machine": payload["machine"], "guards": payload["guards"], "events": payload["events"]}
    for fl in ([flavor] if flavor in ("sync", "async") else ["sync", "async"]):
        st0, r0 = _worker((fl, c, None, 30))
        st1, r1 = _worker((fl, c, payload["fault_at"], 30))
        if st0 != "ok":
            continue
        if st1 != "ok":
            out.append({"kind": "observer-fault-changes-termination", "step": -1, "at": None, "detail": f"[{fl}] {st1}: {str(r1)[:200]}"})
            continue
        esc = next((o["E"] for o in r1["obs"] if str(o["E"]).startswith("OBSERVER-FAULT-ESCAPED")), None)
        d = _first_diff(r0["obs"], r1["obs"])
        if esc:
            out.append({"kind": "observer-fault-escapes", "step": -1, "at": None, "detail": f"[{fl}] {esc}"})
        elif d is not None:
            out.append({"kind": "observer-fault-changes-run", "step": d["step"], "at": None, "detail": f"[{fl}] {json.dumps(d)[:300]}"})
    return out
