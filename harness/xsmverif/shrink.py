"""Greedy delta-debugging of a case (machine, guards, events) under a failure predicate."""
from __future__ import annotations
import copy


def _states(cfg, path=()):
    yield path, cfg
    for k, c in (cfg.get("states") or {}).items():
        yield from _states(c, path + (k,))


def _node(cfg, path):
    n = cfg
    for k in path:
        n = n["states"][k]
    return n


def shrink_case(case, fails, budget=120, max_seconds=150):
    """`fails(case) -> bool`; returns a smaller case that still fails (or the original).  Bounded in calls and in
    wall time (a candidate that makes the engine hang costs a whole watchdog period)."""
    import time
    best = copy.deepcopy(case)
    best.pop("features", None)
    calls = [0]
    t_end = time.time() + max_seconds

    def ok(c):
        if calls[0] >= budget or time.time() > t_end:
            calls[0] = budget
            return False
        calls[0] += 1
        try:
            return bool(fails(c))
        except Exception:
            return False

    key = "ops" if "ops" in best else "events"
    # 1. shorten the event list
    evs = best[key]
    for n in range(len(evs)):
        c = dict(best)
        c[key] = evs[:n]
        if ok(c):
            best = c
            break
    i = 0
    while i < len(best[key]):
        c = dict(best)
        c[key] = best[key][:i] + best[key][i + 1:]
        if ok(c):
            best = c
        else:
            i += 1
    # 2. drop parts of the machine
    changed = True
    while changed and calls[0] < budget:
        changed = False
        for path, _n in list(_states(best["machine"])):
            try:
                node = _node(best["machine"], path)
            except KeyError:
                continue        # removed together with an ancestor earlier in this pass
            for field in ("always", "onDone", "after", "invoke", "on", "entry", "exit"):
                if field in node:
                    if field == "on" and isinstance(node["on"], dict) and len(node["on"]) > 1:
                        for ev in list(node["on"].keys()):
                            c = copy.deepcopy(best)
                            del _node(c["machine"], path)["on"][ev]
                            if ok(c):
                                best = c
                                changed = True
                                node = _node(best["machine"], path)
                        continue
                    c = copy.deepcopy(best)
                    del _node(c["machine"], path)[field]
                    if ok(c):
                        best = c
                        changed = True
                        node = _node(best["machine"], path)
            kids = node.get("states") or {}
            for k in list(kids.keys()):
                if len(kids) <= 1:
                    break
                c = copy.deepcopy(best)
                nn = _node(c["machine"], path)
                del nn["states"][k]
                if nn.get("initial") == k:
                    continue
                if ok(c):
                    best = c
                    changed = True
                    kids = _node(best["machine"], path).get("states") or {}
    return best
