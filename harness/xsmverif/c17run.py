"""C17 worker: run the REAL `xsm generate-template` in-process on one configuration
(machine JSON x template x sync/async x 1/2 files) inside a scratch directory and evaluate the
property's monitor on what it did.  Runs in a forked pool worker under a SIGALRM watchdog.

A task is a plain dict: {"id", "machine", "template", "async": bool, "files": 1|2, "fast": bool (in-process
black instead of `python -m black`), "twin": benign-names machine or None, "names": hostile strings,
"seed": int, "origin", "features"}.
The result is {"id", "task", "exit", "refusal": first line of the refusal or None, "files": [...],
"problems": [{"kind", "construct", "detail", ...}], "stats": {...}, "bindings": [...] (for the model tie)}.
"""
from __future__ import annotations
import ast, collections, contextlib, importlib.util, io, json, logging, os, random, re, shutil, signal, sys, threading, time, traceback, unicodedata

from . import core, impl, c17fp

SCRATCH = os.path.join(core.WORK, "c17")
SENTINEL = "PWNED_C17"
_COMPOSITES = {"and", "or", "not"}


class _Cap(logging.Handler):
    def __init__(self):
        super().__init__(level=logging.ERROR)
        self.msgs = []

    def emit(self, record):
        try:
            self.msgs.append(record.getMessage())
        except Exception:
            pass


_FAST = {"on": False, "orig": None}


def _set_black(fast: bool):
    """harness-side substitution (not a change to the repository): `postprocess.format_source` shells out to
    `python -m black` (0.4 s a file); the bulk of the exploration formats in-process with the same black and the same
    line length, and a sample of every run uses the real subprocess path and compares the bytes"""
    from xstate_statemachine.cli import postprocess
    if _FAST["orig"] is None:
        _FAST["orig"] = postprocess.format_source
    if fast:
        import black

        def fast_format(code, *, line_length=postprocess._LINE_LENGTH):
            try:
                return black.format_str(code, mode=black.Mode(line_length=line_length))
            except Exception:
                return code
        postprocess.format_source = fast_format
    else:
        postprocess.format_source = _FAST["orig"]


def cli(argv):
    """run the CLI entry point; returns (exit_code | 'crash:<exc>', error log lines, stdout)"""
    from xstate_statemachine.cli.__main__ import main
    if not logging.root.handlers:
        logging.root.addHandler(logging.NullHandler())
    cap = _Cap()
    lib = logging.getLogger("xstate_statemachine")
    lib.addHandler(cap)
    old_argv, old_stdin = sys.argv, sys.stdin
    sys.argv = ["xsm"] + list(argv)
    sys.stdin = io.StringIO("")
    out, err = io.StringIO(), io.StringIO()
    try:
        with contextlib.redirect_stdout(out), contextlib.redirect_stderr(err):
            try:
                main()
                rc = 0
            except SystemExit as e:
                rc = e.code if isinstance(e.code, int) else (0 if e.code is None else 1)
            except impl.Hang:
                raise
            except Exception as e:
                rc = "crash:%s: %s" % (type(e).__name__, str(e)[:200])
    finally:
        sys.argv, sys.stdin = old_argv, old_stdin
        lib.removeHandler(cap)
    return rc, cap.msgs, out.getvalue() + err.getvalue()


def tree_snapshot(root):
    snap = {}
    for d, _dirs, files in os.walk(root):
        for f in files:
            p = os.path.join(d, f)
            if "__pycache__" in p:
                continue
            try:
                with open(p, "rb") as fh:
                    snap[os.path.relpath(p, root)] = fh.read()
            except OSError:
                snap[os.path.relpath(p, root)] = None
    return snap


def _gen_args(jpath, outdir, task, extra=()):
    return ["generate-template", jpath, "-t", task["template"], "-o", outdir, "-fc", str(task["files"]),
            "-am", "yes" if task["async"] else "no", *extra]


# ---- loading what was written ---------------------------------------------------------------------
def _import_file(path, modname):
    spec = importlib.util.spec_from_file_location(modname, path)
    mod = importlib.util.module_from_spec(spec)
    sys.modules[modname] = mod
    spec.loader.exec_module(mod)
    return mod


def _machine_expr(runner_tree):
    """the statements of the runner's main() that lead to `machine = ...` (logic provider construction included)"""
    mains = [n for n in runner_tree.body if isinstance(n, (ast.FunctionDef, ast.AsyncFunctionDef)) and n.name == "main"]
    for node in mains[-1:]:          # the last module-level definition is the one `main()` calls
        if True:
            keep = []
            for st in node.body:
                if isinstance(st, (ast.Import, ast.ImportFrom)):
                    keep.append(st)
                if isinstance(st, ast.Assign) and len(st.targets) == 1 and isinstance(st.targets[0], ast.Name):
                    nm = st.targets[0].id
                    if nm in ("logic_provider", "machine", "parent_machine"):
                        keep.append(st)
                        if nm in ("machine", "parent_machine"):
                            return keep
            return keep
    return []


_LAST_MODS = {}


def unbound_causes(machine_json, expected, mods):
    """why the generated JSON-template logic leaves names unbound: the generator never emitted a stub
    (`extract_logic_names` did not report the name) or it emitted one the loader cannot map back to the name"""
    import inspect
    from xstate_statemachine.cli.extractor import extract_logic_names
    from xstate_statemachine.logic_loader import _snake_to_camel
    acts, guards, svcs, _d = c17fp.referenced_names(expected)
    ea, eg, es = extract_logic_names(json.loads(json.dumps(machine_json)))
    logic_map = set()
    for mod in mods.values():
        for name, fn in inspect.getmembers(mod, inspect.isfunction):
            if not name.startswith("_"):
                logic_map |= {name, _snake_to_camel(name)}
        for name, cls in inspect.getmembers(mod, inspect.isclass):
            if name.endswith("Logic") and getattr(cls, "__module__", None) == mod.__name__:
                for n2, _f in inspect.getmembers(cls, inspect.isfunction):
                    if not n2.startswith("_"):
                        logic_map |= {n2, _snake_to_camel(n2)}
    not_extracted = sorted((acts - ea) | (guards - eg) | (svcs - es))
    not_discoverable = sorted(((acts & ea) | (guards & eg) | (svcs & es)) - logic_map)
    return not_extracted, not_discoverable


def build_generated(outdir, files, config, uid):
    """import the written module(s) under fresh names and build the machine EXACTLY as the generated runner's
    main() does (its own `machine = ...` statement is evaluated in the runner's namespace, with `config` = the source
    JSON the runner would read from disk).  Returns (machine, modules, note)."""
    mods = {}
    _LAST_MODS["mods"] = mods
    _LAST_MODS["stage"] = "import"
    if len(files) == 1:
        path = os.path.join(outdir, files[0])
        mod = _import_file(path, "c17gen_%s_single" % uid)
        mods["single"] = mod
        runner_mod, runner_path = mod, path
    else:
        logic = [f for f in files if f.endswith("_logic.py")][0]
        runner = [f for f in files if f.endswith("_runner.py")][0]
        # the runner imports the logic module by its file name
        sys.path.insert(0, outdir)
        try:
            mods["logic"] = _import_file(os.path.join(outdir, logic), logic[:-3])
            runner_mod = _import_file(os.path.join(outdir, runner), "c17gen_%s_runner" % uid)
        finally:
            sys.path.remove(outdir)
        mods["runner"] = runner_mod
        runner_path = os.path.join(outdir, runner)
    _LAST_MODS["stage"] = "build"
    with open(runner_path, encoding="utf-8") as f:
        tree = ast.parse(f.read())
    stmts = _machine_expr(tree)
    if not stmts:
        return None, mods, "no `machine = ...` statement in the generated main()"
    ns = dict(vars(runner_mod))
    ns["config"] = json.loads(json.dumps(config))
    for st in stmts:
        code = compile(ast.Module(body=[st], type_ignores=[]), runner_path, "exec")
        exec(code, ns)
    m = ns.get("machine", ns.get("parent_machine"))
    return m, mods, ""


def _drop_modules(prefixes, names):
    for k in list(sys.modules):
        if k in names or any(k.startswith(p) for p in prefixes):
            sys.modules.pop(k, None)


# ---- AST: strings only as data ------------------------------------------------------------------
def skeleton(tree):
    """the AST with every Constant value and every identifier spelling removed: node types and shape only"""
    def sk(n):
        if isinstance(n, ast.Constant):
            return "K"
        if isinstance(n, ast.UnaryOp) and isinstance(n.op, (ast.USub, ast.UAdd)) and isinstance(n.operand, ast.Constant):
            return "K"                  # a negative number literal (`after={-1: ...}`) is a constant
        if isinstance(n, (ast.Import, ast.ImportFrom)):
            return None                 # which fixed imports survive pruning depends on the DATA (`prune_unused_imports` counts identifiers
                                        # inside string constants as uses); what is imported is checked separately (`imported_modules`)
        if isinstance(n, ast.AST):
            return (type(n).__name__,) + tuple(sk(v) for _f, v in ast.iter_fields(n)
                                               if isinstance(v, (ast.AST, list)) and _f not in ("ctx",))
        if isinstance(n, list):
            return tuple(sk(x) for x in n if not isinstance(x, (ast.Import, ast.ImportFrom)))
        return None
    return sk(tree)


ALLOWED_IMPORT_ROOTS = {"asyncio", "json", "logging", "time", "typing", "pathlib", "sys", "xstate_statemachine"}


def imported_modules(tree):
    out = set()
    for n in ast.walk(tree):
        if isinstance(n, ast.Import):
            out |= {a.name.split(".")[0] for a in n.names}
        elif isinstance(n, ast.ImportFrom):
            out.add((n.module or "").split(".")[0])
    return out


def stub_collisions(tree):
    """module-level function names that are also bound by an import, an assignment or another def of the same module"""
    defs, other = collections.Counter(), set()
    for n in tree.body:
        if isinstance(n, (ast.FunctionDef, ast.AsyncFunctionDef)):
            defs[n.name] += 1
        elif isinstance(n, ast.Import):
            other |= {(a.asname or a.name).split(".")[0] for a in n.names}
        elif isinstance(n, ast.ImportFrom):
            other |= {a.asname or a.name for a in n.names}
        elif isinstance(n, ast.Assign):
            other |= {t.id for t in n.targets if isinstance(t, ast.Name)}
        elif isinstance(n, ast.ClassDef):
            other.add(n.name)
    return sorted({d for d in defs if d in other or defs[d] > 1})


def identifiers(tree):
    ids = set()
    for n in ast.walk(tree):
        if isinstance(n, ast.Name):
            ids.add(n.id)
        elif isinstance(n, ast.Attribute):
            ids.add(n.attr)
        elif isinstance(n, (ast.FunctionDef, ast.AsyncFunctionDef, ast.ClassDef)):
            ids.add(n.name)
        elif isinstance(n, ast.arg):
            ids.add(n.arg)
        elif isinstance(n, ast.keyword) and n.arg:
            ids.add(n.arg)
        elif isinstance(n, ast.alias):
            ids.update(n.name.split("."))
            if n.asname:
                ids.add(n.asname)
        elif isinstance(n, (ast.Global, ast.Nonlocal)):
            ids.update(n.names)
    return ids


def _proj_ascii(s):
    return "".join(c for c in s.lower() if c.isascii() and c.isalnum())


def _proj_nfkd(s):
    d = unicodedata.normalize("NFKD", s)
    return "".join(c for c in d.lower() if c.isascii() and c.isalnum())


def derived_cores(strings):
    """alphanumeric projections an identifier may legitimately be built from (independent of the code's sanitisers)"""
    cores = set()
    for s in strings:
        for p in (_proj_ascii(s), _proj_nfkd(s)):
            cores.add(p)
    return cores


def ident_core(ident):
    """the alphanumeric cores an identifier may have been built from: with / without an allocator suffix `_<n>`, a keyword
    underscore, the digit prefix `s_`"""
    out = set()
    for x in {ident, re.sub(r"_\d+$", "", ident)}:
        for y in {x, x.rstrip("_")}:
            for z in {y, y[2:] if y.startswith("s_") else y}:
                out.add(z.replace("_", "").lower())
    return out


def raw_aliases(tree, raw_strings):
    """`<json string> = <name>` statements: a string of the JSON used verbatim as a binding"""
    out = []
    for n in ast.walk(tree):
        if isinstance(n, ast.Assign) and len(n.targets) == 1 and isinstance(n.targets[0], ast.Name) and isinstance(n.value, ast.Name):
            if n.targets[0].id in raw_strings and n.targets[0].id != n.value.id:
                out.append(n)
    return out


def data_aliases(tree):
    """`globals()[<constant>] = <name>` / `locals()[<constant>] = <name>`: an alias keyed by DATA (present or not depending on whether
    the name equals its stub: a legitimate, data-dependent variation of the module's shape)"""
    out = []
    for n in ast.walk(tree):
        if isinstance(n, ast.Assign) and len(n.targets) == 1 and isinstance(n.targets[0], ast.Subscript) and isinstance(n.value, ast.Name):
            t = n.targets[0]
            if isinstance(t.value, ast.Call) and isinstance(t.value.func, ast.Name) and t.value.func.id in ("globals", "locals") \
                    and not t.value.args and isinstance(t.slice, ast.Constant):
                out.append(n)
    return out


def without(tree, nodes):
    """a copy of the AST without the given statement nodes"""
    drop = {id(n) for n in nodes}

    class T(ast.NodeTransformer):
        def generic_visit(self, node):
            for f, v in ast.iter_fields(node):
                if isinstance(v, list):
                    setattr(node, f, [self.visit(x) if isinstance(x, ast.AST) else x for x in v if id(x) not in drop])
                elif isinstance(v, ast.AST):
                    setattr(node, f, self.visit(v))
            return node
    return T().visit(tree)


def state_bindings(tree):
    """(binding, key) for every `<name> = State(<str>, ...)` assignment"""
    out = []
    for n in ast.walk(tree):
        if isinstance(n, ast.Assign) and len(n.targets) == 1 and isinstance(n.targets[0], ast.Name) and isinstance(n.value, ast.Call):
            f = n.value.func
            if isinstance(f, ast.Name) and f.id == "State" and n.value.args and isinstance(n.value.args[0], ast.Constant):
                out.append((n.targets[0].id, n.value.args[0].value))
    return out


def alloc_requests(machine):
    """the (dotted path, fallback) requests `emit.allocate_bindings` makes, in `MachineIR.walk()` order, computed from
    the JSON alone"""
    reqs = []

    def walk(states, path):
        if not isinstance(states, dict):
            return
        for k, v in states.items():
            p = path + [k]
            reqs.append([".".join(p), "_".join(p) or "state"])
            if isinstance(v, dict):
                walk(v.get("states"), p)
    walk(machine.get("states"), [])
    return reqs


# ---- the monitor -----------------------------------------------------------------------------------
def _walk_nodes(machine):
    yield machine
    for c in machine.states.values():
        yield from _walk_nodes(c)


def _prob(kind, detail, construct=None, **kw):
    d = {"kind": kind, "construct": construct or kind, "detail": str(detail)[:600]}
    d.update(kw)
    return d


def _generate(task, machine, work, tag):
    """one CLI run into a fresh directory; returns dict(exit, msgs, files, snap, outdir, jpath)"""
    indir = os.path.join(work, "in_" + tag)
    outdir = os.path.join(work, "out_" + tag)
    os.makedirs(indir, exist_ok=True)
    jpath = os.path.join(indir, "source.json")
    with open(jpath, "w", encoding="utf-8") as f:
        json.dump(machine, f, ensure_ascii=False)
    before = tree_snapshot(work)
    rc, msgs, out = cli(_gen_args(jpath, outdir, task))
    after = tree_snapshot(work)
    new = sorted(k for k in after if k not in before or after[k] != before[k])
    files = sorted(os.listdir(outdir)) if os.path.isdir(outdir) else []
    return {"exit": rc, "msgs": msgs, "files": [f for f in files if not f.startswith("__pycache__")], "new": new,
            "outdir": outdir, "jpath": jpath, "indir": indir, "stdout": out}


def check_config(task, work):
    problems, stats = [], {}
    res = {"id": task["id"], "exit": None, "refusal": None, "files": [], "problems": problems, "stats": stats, "bindings": None}
    machine = task["machine"]
    _set_black(task.get("fast", True))
    g = _generate(task, machine, work, "a")
    res["exit"] = g["exit"]
    res["files"] = g["files"]
    refusal = next((m for m in g["msgs"] if "Refusing" in m), None)
    if refusal:
        bullets = [ln.strip(" •") for ln in refusal.split("\n") if ln.strip().startswith("•")]
        res["refusal"] = (bullets[0] if bullets else refusal.split("\n")[0])[:200]
    elif g["exit"] != 0:
        res["refusal"] = (g["msgs"][-1] if g["msgs"] else str(g["exit"]))[:200]
    if os.path.exists(os.path.join(work, SENTINEL)) or os.path.exists(SENTINEL):
        problems.append(_prob("code-executed", "a string of the JSON was EXECUTED during generation (sentinel file created)", "string-as-code"))
    stray = [p for p in g["new"] if not p.startswith("out_a" + os.sep)]
    if stray:
        problems.append(_prob("stray-write", "files written outside the output directory: %s" % stray[:4]))
    if g["exit"] != 0:
        # ---- exit code non-zero => nothing written
        if g["files"]:
            problems.append(_prob("wrote-on-refusal", "exit %s but files were written: %s" % (g["exit"], g["files"]),
                                  "crash" if str(g["exit"]).startswith("crash") else "wrote-on-refusal"))
        if str(g["exit"]).startswith("crash"):
            stats["crash"] = g["exit"]
            problems.append(_prob("cli-crash", "the CLI raised instead of refusing: %s" % g["exit"], "cli-crash"))
        stats["refused"] = 1
        return res
    # ---- exit 0
    stats["generated"] = 1
    py = [f for f in g["files"] if f.endswith(".py")]
    if len(py) != task["files"] or len(g["files"]) != task["files"]:
        problems.append(_prob("unexpected-files", "expected %d module(s), found %s" % (task["files"], g["files"])))
        if not py:
            return res
    trees = {}
    for f in py:
        with open(os.path.join(g["outdir"], f), encoding="utf-8") as fh:
            src = fh.read()
        try:
            trees[f] = ast.parse(src)
        except SyntaxError as e:
            problems.append(_prob("invalid-python", "%s: line %s: %s" % (f, e.lineno, e.msg), "invalid-python", file=f,
                                  role="runner" if f.endswith("_runner.py") else ("logic" if f.endswith("_logic.py") else "single")))
    if len(trees) != len(py):
        return res
    # ---- regenerate => byte-identical ; --check => exit 0, no drift, nothing written
    g2 = _generate(task, machine, work, "b")
    a_bytes = {f: tree_snapshot(g["outdir"]).get(f) for f in g["files"]}
    b_bytes = {f: tree_snapshot(g2["outdir"]).get(f) for f in g2["files"]}
    if g2["exit"] != 0 or a_bytes != b_bytes:
        problems.append(_prob("regen-differs", "second generation from the same input: exit %s, differing files %s" % (
            g2["exit"], sorted(f for f in set(a_bytes) | set(b_bytes) if a_bytes.get(f) != b_bytes.get(f)))))
    before = tree_snapshot(work)
    rc3, msgs3, out3 = cli(_gen_args(g["jpath"], g["outdir"], task, ["--check"]))
    after = tree_snapshot(work)
    if rc3 != 0:
        problems.append(_prob("check-drift", "--check right after generating exits %s: %s" % (rc3, out3[-200:])))
    if before != after:
        problems.append(_prob("check-wrote", "--check changed files: %s" % sorted(k for k in set(before) | set(after) if before.get(k) != after.get(k))[:4]))
    stats["regen_checked"] = 1
    if not task.get("fast", True):
        # the same configuration through the in-process formatter: must be the same bytes (validates the substitution)
        _set_black(True)
        g4 = _generate(task, machine, work, "f")
        if {f: tree_snapshot(g4["outdir"]).get(f) for f in g4["files"]} != a_bytes:
            problems.append(_prob("harness-black-shim-differs", "in-process black and `python -m black` disagree", "harness"))
        stats["real_black"] = 1
    # ---- import without side effects, build the machine the runner builds
    uid = "%d_%d" % (os.getpid(), int(time.time() * 1e6) % 10**9)
    from xstate_statemachine import create_machine, MachineLogic
    from xstate_statemachine.exceptions import ImplementationMissingError
    try:
        expected = create_machine(json.loads(json.dumps(machine)), logic=MachineLogic())
    except Exception as e:
        expected = None
        stats["source_invalid"] = "%s: %s" % (type(e).__name__, str(e)[:120])
    before = tree_snapshot(work)
    nthreads = threading.active_count()
    out, err = io.StringIO(), io.StringIO()
    gen_machine, mods, note, build_err = None, {}, "", None
    modnames = {f[:-3] for f in py}
    try:
        with contextlib.redirect_stdout(out), contextlib.redirect_stderr(err):
            try:
                gen_machine, mods, note = build_generated(g["outdir"], py, machine, uid)
            except impl.Hang:
                raise
            except ImplementationMissingError as e:
                build_err = ("unbound-name", str(e))
                mods = _LAST_MODS.get("mods", {})
            except Exception as e:
                build_err = ("import-error" if _LAST_MODS.get("stage") == "import" else "build-error", "%s: %s" % (type(e).__name__, str(e)[:300]))
    finally:
        _drop_modules(["c17gen_%s" % uid], modnames)
    after = tree_snapshot(work)
    if before != after or out.getvalue() or threading.active_count() != nthreads or os.path.exists(os.path.join(work, SENTINEL)):
        problems.append(_prob("import-side-effect", "importing/building changed files %s, printed %r, threads %d->%d" % (
            sorted(k for k in set(before) | set(after) if before.get(k) != after.get(k))[:3], out.getvalue()[:80], nthreads, threading.active_count())))
    if build_err:
        if expected is None:
            stats["source_invalid_and_generated_fails"] = 1      # the source machine itself does not load
        elif build_err[0] == "unbound-name" and task["template"].endswith("-json"):
            ne, nd = unbound_causes(machine, expected, mods)
            construct = "+".join((["not-extracted"] if ne else []) + (["not-discoverable"] if nd else [])) or "unbound-name"
            problems.append(_prob("unbound-name", "the generated runner's create_machine(config, ...) raises: %s | names with no stub at all: %s | "
                                  "names whose stub the loader cannot map back: %s" % (build_err[1][:160], ne[:5], nd[:5]), construct,
                                  not_extracted=ne[:20], not_discoverable=nd[:20]))
        elif build_err[0] == "import-error":
            coll = sorted({c for t in trees.values() for c in stub_collisions(t)})
            problems.append(_prob("import-error", "importing the written module raises %s; generated function names that collide with other names "
                                  "of the module: %s" % (build_err[1], coll), "stub-name-collision" if coll else "import-error", collisions=coll))
        else:
            problems.append(_prob(build_err[0], build_err[1], build_err[0]))
        return res
    if gen_machine is None:
        problems.append(_prob("build-error", note or "the generated main() built no machine"))
        return res
    stats["built"] = 1
    if expected is None:
        problems.append(_prob("built-from-invalid-source", "create_machine(json) raises (%s) but the generated code builds a machine" % stats["source_invalid"]))
        return res
    # ---- deep fingerprint
    fe, fg = c17fp.fingerprint(expected), c17fp.fingerprint(gen_machine)
    diffs = c17fp.diff_fingerprints(fe, fg)
    stats["states"] = len(fe) - 1
    for d in diffs:
        if d["construct"] == "custom_id-differs":
            # custom ids only serve target resolution and targets are compared RESOLVED: not a behavioural difference
            stats["custom_id_not_reproduced"] = stats.get("custom_id_not_reproduced", 0) + 1
            continue
        problems.append(_prob("fingerprint-diff", "state %(state)s field %(field)s: source %(expected)s, generated %(generated)s" % d,
                              d["construct"], state=d["state"], field=d["field"]))
    # ---- logic: every referenced name bound (JSON-loading templates), no built-in shadowed (all)
    acts, guards, svcs, delays = c17fp.referenced_names(expected)
    lg = gen_machine.logic
    bound_a, bound_g, bound_s = set(getattr(lg, "actions", {}) or {}), set(getattr(lg, "guards", {}) or {}), set(getattr(lg, "services", {}) or {})
    missing = {"actions": sorted(acts - bound_a), "guards": sorted(guards - bound_g), "services": sorted(svcs - bound_s)}
    n_missing = sum(len(v) for v in missing.values())
    if n_missing:
        if task["template"].endswith("-json"):
            problems.append(_prob("unbound-name", "generated logic does not bind %s" % {k: v[:4] for k, v in missing.items() if v}, "unbound-name"))
        else:
            stats["pythonic_unbound_names"] = n_missing
    from xstate_statemachine.actions import is_builtin
    shadow_g = sorted(bound_g & (_COMPOSITES | {"stateIn"}))
    shadow_a = sorted(a for a in bound_a if is_builtin(a))
    if shadow_g or shadow_a:
        problems.append(_prob("builtin-shadowed", "the generated logic registers user implementations for built-ins: guards %s actions %s "
                              "(a user implementation wins over the built-in)" % (shadow_g, shadow_a),
                              "stateIn-stub" if shadow_g == ["stateIn"] and not shadow_a else "builtin-stub"))
    # ---- traces with the same Recorder logic on both machine objects
    rng = random.Random(task.get("seed", 0))
    gnames = sorted(guards | {x for x in bound_g if x not in _COMPOSITES | {"stateIn"}})
    ntr = 0
    for ops in c17fp.trace_events(expected, rng, task.get("n_traces", 3), task.get("trace_len", 8)):
        gv = {gn: ("t" if rng.random() < 0.6 else "f") for gn in gnames}
        ta = c17fp.run_trace(expected, gv, ops)
        tb = c17fp.run_trace(gen_machine, gv, ops)
        ntr += 1
        d = c17fp.first_trace_diff(ta, tb)
        if d is not None:
            constructs = sorted({p["construct"] for p in problems if p["kind"] == "fingerprint-diff"})
            problems.append(_prob("trace-diff", "ops %s guards %s: %s" % (ops[:d["step"]], gv, json.dumps(d, default=str)[:300]),
                                  "+".join(constructs) if constructs else "trace-only", ops=ops, guards=gv))
            break
    stats["traces"] = ntr
    # ---- strings only as data
    ids = set()
    for f, t in trees.items():
        ids |= identifiers(t)
    from . import c17gen
    raw = c17gen.all_strings(machine)
    services = {i.src for n_ in _walk_nodes(expected) for i in n_.invoke if i.src}
    for f in list(trees):
        al = raw_aliases(trees[f], raw)
        if al:
            names = sorted({a.targets[0].id for a in al})
            problems.append(_prob("json-string-as-identifier", "%s: a string of the JSON is used verbatim as a Python binding: %s" % (
                f, ["%s = %s" % (a.targets[0].id, a.value.id) for a in al][:4]),
                "service-alias" if set(names) <= services else "raw-identifier", names=names[:10]))
            trees[f] = without(trees[f], al)
            ids -= set(names)
    own = {f[:-3] for f in py}
    bad_imports = sorted({m for t in trees.values() for m in imported_modules(t)} - ALLOWED_IMPORT_ROOTS - own)
    if bad_imports:
        problems.append(_prob("unexpected-import", "the generated files import %s" % bad_imports, "string-as-code"))
    bad_ids = sorted(i for i in ids if not (i.isascii() and i.isidentifier()))
    if bad_ids:
        problems.append(_prob("non-ascii-identifier", "identifiers %s" % bad_ids[:5], "string-as-code"))
    if task["template"] in ("pythonic-functional", "pythonic-class"):
        logic_tree = next((t for f, t in trees.items() if not f.endswith("_runner.py")), None)
        res["bindings"] = {"got": state_bindings(logic_tree), "req": alloc_requests(machine)}
    if task.get("twin") is not None:
        gt = _generate(task, task["twin"], work, "t")
        if gt["exit"] == 0:
            tw_trees = {}
            try:
                for f in gt["files"]:
                    with open(os.path.join(gt["outdir"], f), encoding="utf-8") as fh:
                        tw_trees[f] = ast.parse(fh.read())
            except SyntaxError:
                tw_trees = None
            if tw_trees is not None:
                # file names derive from the machine id: pair the files by role
                def role(f):
                    return "runner" if f.endswith("_runner.py") else ("logic" if f.endswith("_logic.py") else "single")
                traw = c17gen.all_strings(task["twin"])
                tw_trees = {f: without(t, raw_aliases(t, traw) + data_aliases(t)) for f, t in tw_trees.items()}
                trees = {f: without(t, data_aliases(t)) for f, t in trees.items()}
                sk_a = {role(f): skeleton(t) for f, t in trees.items()}
                sk_t = {role(f): skeleton(t) for f, t in tw_trees.items()}
                if sk_a != sk_t:
                    problems.append(_prob("ast-shape-differs", "the AST of the files generated from hostile names is not the AST generated from benign "
                                          "names up to constants and identifier spellings (roles %s)" % sorted(r for r in sk_a if sk_a[r] != sk_t.get(r)),
                                          "string-as-code"))
                base_ids = set()
                for t in tw_trees.values():
                    base_ids |= identifiers(t)
                strings = set(task.get("names") or [])
                strings |= raw
                dotted = [r[0] for r in alloc_requests(machine)] + [r[1] for r in alloc_requests(machine)]
                cores = derived_cores(list(strings) + dotted)
                mid = machine.get("id", "")
                extra = set()
                for p in (_proj_ascii(mid), _proj_nfkd(mid)):
                    extra |= {p + "logic", p + "machine", p, p + "runner"}
                extra |= {"machinelogic", "machinemachine", "machinerunner"}      # `camel_to_snake` falls back to "machine"
                unexplained = sorted(i for i in ids - base_ids - {"globals", "locals"} if not (ident_core(i) & (cores | extra | {"state", "machine", ""})))
                if unexplained:
                    problems.append(_prob("identifier-not-derived", "identifiers that are neither template vocabulary nor the alphanumeric "
                                          "projection of a JSON string: %s" % unexplained[:6], "string-as-code"))
                stats["twin_checked"] = 1
        else:
            stats["twin_refused"] = 1
    return res


def run_task(task):
    """pool entry point: scratch directory, watchdog, cleanup"""
    os.makedirs(SCRATCH, exist_ok=True)
    work = os.path.join(SCRATCH, "t%d_%d" % (os.getpid(), int(time.time() * 1e6)))
    os.makedirs(work)
    cwd = os.getcwd()
    os.chdir(work)
    old = signal.signal(signal.SIGALRM, impl._alarm)
    impl._HUNG[0] = False
    signal.setitimer(signal.ITIMER_REAL, task.get("timeout", 60), 0.5)
    t0 = time.time()
    try:
        r = check_config(task, work)
        signal.setitimer(signal.ITIMER_REAL, 0)
        if impl._HUNG[0]:
            r = {"id": task["id"], "exit": "hang", "problems": [_prob("hang", "watchdog fired")], "stats": {}, "files": [], "refusal": None, "bindings": None}
    except impl.Hang:
        signal.setitimer(signal.ITIMER_REAL, 0)
        r = {"id": task["id"], "exit": "hang", "problems": [_prob("hang", "the generator (or the generated code) did not return within the watchdog")],
             "stats": {}, "files": [], "refusal": None, "bindings": None}
    except BaseException as e:
        signal.setitimer(signal.ITIMER_REAL, 0)
        r = {"id": task["id"], "exit": "harness-error", "problems": [], "stats": {"harness_error": "%s: %s\n%s" % (type(e).__name__, e, traceback.format_exc()[-800:])},
             "files": [], "refusal": None, "bindings": None}
    finally:
        signal.setitimer(signal.ITIMER_REAL, 0)
        signal.signal(signal.SIGALRM, old)
        os.chdir(cwd)
        shutil.rmtree(work, ignore_errors=True)
    r["wall"] = round(time.time() - t0, 3)
    r["key"] = {k: task[k] for k in ("template", "async", "files", "origin")}
    r["features"] = task.get("features", [])
    return r
