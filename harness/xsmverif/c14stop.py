"""C14, directed supplement: stop() landing INSIDE a macrostep ("... at every point of a run including mid-macrostep").

The lifecycle model (Model/Lifecycle.lean) has no timers / services and c14svc.py stops an idle interpreter; here stop() is
called while a transition is in flight, on the REAL engines (virtual time: `c08.VLoop` / the thread shim `c08.VSched`):

  who calls stop()                                   async                                  sync
  an action of the transition itself                 coroutine action `await i.stop()`      plain action `i.stop()`
                                                     plain action -> `ensure_future(i.stop())`
  another task / thread while a slow action runs     strictly inside | in the instant in    strictly inside | in the instant in
                                                     which it ends | with a service whose   which it ends
                                                     teardown takes time
  a plugin hook / a subscriber                       -> `ensure_future(i.stop())`           `i.stop()`

x where the action sits (an exit action of the source, an action of the transition, an entry action of the target) x which
states own tasks when stop() is called (the source, an enclosing state) — that decides whether the async run loop suspends in
`cancel_by_owner` and whether `cancel_all()` has something to await. The transition leads to a state that declares an `after`
timer and an invoked service. Durations / delays come from `seed`.

JUDGED, in the property's words ("when it returns every timer, delayed send, service task, timer thread ... has been cancelled or
stopped, and none of them delivers anything afterwards"; "running -> stopped"), R = the moment stop() RETURNED:
  status-after-stop / stopped-is-not-final   the status is `stopped` at R and at every later look
  task-alive-after-stop                      census at R (and later): no task / timer thread of the interpreter is alive
  armed-after-stop                           no timer is armed after R
  service-started-after-stop                 no service is called after R
  timer-expired-after-stop                   no timer of the interpreter expires after R (it reaches `send`, which refuses)
  service-delivered-after-stop               no service returns / reports to plugins after R
  event-received-after-stop                  no event is taken up after stop() was called
  action-after-stop                          no entry / exit / transition action BEGINS after R. DECISION about the action list
        that was already executing when stop() was called: its REMAINING actions count as well — only the action that is running
        (the one that called stop(), or a coroutine action suspended in an `await` and resumed before stop() got to cancel the run
        loop) may run to its own end: the library cannot un-run user code, everything else it starts itself. This is what the
        async engine already does in its main path (stop() from another task in the middle of an `await` cancels the run loop
        there: the rest of the list never runs), so the rule makes every placement of stop() agree with that one.
NOT judged (reported in `what`): the `on_transition` / subscriber notification of the transition that was cut short.
"""
from __future__ import annotations
import asyncio, itertools, json, random

from . import core, impl

KINDS = ("task-alive-after-stop", "armed-after-stop", "service-started-after-stop", "timer-expired-after-stop",
         "service-delivered-after-stop", "action-after-stop")


def machine(sc):
    """A --GO--> B inside P; B declares an `after` timer and an invoked service; HOOK sits where the scenario says"""
    A = {"entry": ["enA"], "exit": ["exA"], "on": {"GO": {"target": "B", "actions": ["t1", "t2"]}}}
    if sc["a_timer"]:
        A["after"] = {"3000": {"actions": ["afA"]}}
    B = {"entry": ["enB"], "exit": ["exB"], "after": {str(sc["delay"]): {"target": "C", "actions": ["afB"]}},
         "invoke": {"id": "svc", "src": "work", "onDone": {"target": "D", "actions": ["odB"]}}}
    w = sc["where"]
    if w == "exit":
        A["exit"] = ["HOOK", "exA"]
    elif w == "trans":
        A["on"]["GO"]["actions"] = ["t1", "HOOK", "t2"]
    elif w == "entry":
        B["entry"] = ["HOOK", "enB"]
    P = {"initial": "A", "states": {"A": A, "B": B, "C": {"entry": ["enC"]}, "D": {"entry": ["enD"]}}}
    if sc["p_timer"]:
        P["after"] = {"5000": {"actions": ["afP"]}}
    if sc.get("teardown"):
        P["invoke"] = {"id": "bg", "src": "bg"}
    return {"id": "m", "initial": "P", "states": {"P": P}}


ACTS = ("enA", "exA", "t1", "t2", "enB", "exB", "afB", "odB", "enC", "enD", "afA", "afP")


class _Obs:
    """what both runners share: the log and the bookkeeping around stop()"""

    def __init__(self, clock):
        self.log = []
        self.clock = clock
        self.late = []              # armed / invoked while the status is `stopped`
        self.facts = {}

    def rec(self, x):
        self.log.append([self.clock(), x])

    def called(self, it, in_flight):
        self.facts["stop_in_flight"] = bool(in_flight)
        self.facts["called_at"] = len(self.log)
        self.rec("STOP-called")

    def returned(self, it, census):
        self.rec("STOP-returned")
        self.facts["returned_at"] = len(self.log)
        self.facts["status_at_return"] = it.status
        self.facts["alive_at_return"] = census


def _plugin(ob, sc, maybe_stop):
    from xstate_statemachine import PluginBase
    hook = sc["mode"].split(":", 1)[1] if sc["mode"].startswith("plugin:") else None

    class P(PluginBase):
        def on_interpreter_stop(self, i):
            ob.rec("plugin:stop")

        def on_transition(self, i, f, t, tr):
            ob.rec("plugin:transition")
            if hook == "on_transition" and tr.event == "GO":
                maybe_stop(i)

        def on_event_received(self, i, e):
            ob.rec("plugin:recv:" + e.type)
            if hook == "on_event_received" and e.type == "GO":
                maybe_stop(i)

        def on_action_execute(self, i, a):
            if hook == "on_action_execute:" + a.type:
                maybe_stop(i)

        def on_service_start(self, i, inv):
            ob.rec("plugin:svc-start:" + inv.id)

        def on_service_done(self, i, inv, r):
            ob.rec("plugin:svc-done:" + inv.id)
    return P()


def _wrap(it, ob):
    oa = it._after_timer

    def at(d, ev, owner_id):
        ob.rec(f"arm:{owner_id}:{ev.type}")
        if it.status == "stopped":
            ob.late.append(["timer", ev.type, owner_id])
        return oa(d, ev, owner_id=owner_id)
    it._after_timer = at
    oi = it._invoke_service

    def inv(invocation, service, owner_id):
        if it.status == "stopped":
            ob.late.append(["service", invocation.id, owner_id])
        return oi(invocation, service, owner_id=owner_id)
    it._invoke_service = inv


# ------------------------------------------------------------------------------------------------ async
async def _scenario_async(sc):
    from xstate_statemachine import Interpreter, MachineLogic, create_machine
    loop = asyncio.get_running_loop()
    ob = _Obs(lambda: loop.ms)
    holder = {}
    mode = sc["mode"]

    def own_tasks(it):
        me = asyncio.current_task()
        return sorted(getattr(t.get_coro(), "__qualname__", "?") for t in asyncio.all_tasks() if t is not me and not t.done()
                      and t is not holder.get("t") and getattr(t.get_coro(), "__qualname__", "").startswith("Interpreter."))

    async def do_stop(i):
        ob.called(i, i._processing)
        await i.stop()
        ob.returned(i, own_tasks(i))

    def maybe_stop(i):
        if "t" not in holder and i.status == "running":
            holder["t"] = asyncio.ensure_future(do_stop(i))

    def act(name):
        def f(i, c, e, a):
            ob.rec("action:" + name)
        return f
    acts = {n: act(n) for n in ACTS}
    if mode == "self-coro":
        async def hook(i, c, e, a):
            ob.rec("action:HOOK")
            await do_stop(i)
    elif mode == "self-task":
        def hook(i, c, e, a):
            ob.rec("action:HOOK")
            maybe_stop(i)
    elif mode.startswith("other"):
        async def hook(i, c, e, a):
            ob.rec("action:HOOK")
            await asyncio.sleep(sc["slow"] / 1000.0)
            ob.rec("HOOK-end")
    else:
        def hook(i, c, e, a):
            ob.rec("action:HOOK")
    acts["HOOK"] = hook

    async def work(i, c, e):
        ob.rec("svc-start:svc")
        await asyncio.sleep(sc["svc"] / 1000.0)
        ob.rec("svc-end:svc")
        return 1

    async def bg(i, c, e):
        try:
            await asyncio.sleep(100)
        finally:
            await asyncio.sleep(sc.get("teardown", 0) / 1000.0)      # a teardown that takes time
    it = Interpreter(create_machine(machine(sc), logic=MachineLogic(actions=acts, services={"work": work, "bg": bg})))
    it.use(_plugin(ob, sc, maybe_stop))
    it.subscribe(lambda s: (ob.rec("subscriber"), maybe_stop(it) if mode == "subscriber" and "m.P.B" in it.current_state_ids else None))
    _wrap(it, ob)
    osend = it.send

    async def send(ev, **kw):
        ob.rec("send:" + (ev if isinstance(ev, str) else ev.type) + ":" + it.status)
        return await osend(ev, **kw)
    it.send = send
    await it.start()
    await asyncio.sleep(0.01)
    await it.send("GO")
    if mode.startswith("other"):
        await asyncio.sleep((sc["stop_at"] - loop.ms) / 1000.0)
        await do_stop(it)
    else:
        await asyncio.sleep(0.005)
        if "t" in holder:
            await holder["t"]
        elif "returned_at" not in ob.facts:          # the hook never came (control): stop the idle interpreter
            await do_stop(it)
    statuses = [it.status]
    for _ in range(4):
        await asyncio.sleep((sc["delay"] + sc["svc"] + sc["slow"]) / 1000.0)
        statuses.append(it.status)
    return {"log": ob.log, "late": ob.late, "statuses": statuses, "alive_end": own_tasks(it), "config": sorted(it.current_state_ids), **ob.facts}


def run_async(sc):
    from . import c08
    loop = c08.VLoop()
    loop.set_exception_handler(lambda _l, _c: None)
    asyncio.set_event_loop(loop)
    try:
        return loop.run_until_complete(_scenario_async(sc))
    finally:
        try:
            for t in asyncio.all_tasks(loop):
                t.cancel()
            loop.run_until_complete(asyncio.sleep(0))
        except BaseException:
            pass
        loop.close()
        asyncio.set_event_loop(None)


# ------------------------------------------------------------------------------------------------ sync
def run_sync(sc):
    from . import c08
    from xstate_statemachine import SyncInterpreter, MachineLogic, create_machine
    import xstate_statemachine.sync_interpreter as SI
    sched = c08.VSched()
    saved = (SI.threading, SI.time, SI.uuid)
    SI.threading, SI.time, SI.uuid = c08._ThreadingShim(sched), c08._TimeShim(sched), c08._UuidShim()
    ob = _Obs(lambda: sched.ms)
    mode = sc["mode"]
    try:
        fired = [False]

        def waiting(it):
            return sorted(k.split("::")[0] for k, th in list(it._after_threads.items()) if not th.done)

        def do_stop(i):
            ob.called(i, i._is_processing)
            i.stop()
            ob.returned(i, waiting(i))

        def maybe_stop(i):
            if not fired[0] and i.status == "running":
                fired[0] = True
                do_stop(i)

        def act(name):
            def f(i, c, e, a):
                ob.rec("action:" + name)
            return f
        acts = {n: act(n) for n in ACTS}

        def hook(i, c, e, a):
            ob.rec("action:HOOK")
            if mode == "self":
                maybe_stop(i)
            elif mode.startswith("other"):
                sched.park(None, sc["slow"])
                ob.rec("HOOK-end")
        acts["HOOK"] = hook

        def work(i, c, e):
            ob.rec("svc-start:svc")
            ob.rec("svc-end:svc")
            return 1
        it = SyncInterpreter(create_machine(machine(dict(sc, teardown=0)), logic=MachineLogic(actions=acts, services={"work": work})))
        it.use(_plugin(ob, sc, maybe_stop))
        it.subscribe(lambda s: (ob.rec("subscriber"), maybe_stop(it) if mode == "subscriber" and "m.P.B" in it.current_state_ids else None))
        _wrap(it, ob)
        osend = it.send

        def send(ev, **kw):
            ob.rec("send:" + (ev if isinstance(ev, str) else ev.type) + ":" + it.status)
            return osend(ev, **kw)
        it.send = send

        def sender():
            sched.park(None, 10)
            send("GO")
        c08.VThread(sched, target=sender).start()
        if mode.startswith("other"):
            def stopper():
                sched.park(None, sc["stop_at"])
                do_stop(it)
            c08.VThread(sched, target=stopper).start()
        later = {}

        def census(at):
            sched.park(None, at)
            later[at] = [it.status, waiting(it)]
        horizon = 10 + 4 * (sc["delay"] + sc["svc"] + sc["slow"])
        for at in (10 + sc["slow"] + 1, 10 + sc["slow"] + sc["delay"] // 2, horizon - 1):
            c08.VThread(sched, target=census, args=(at,)).start()
        sched.run_ready()
        it.start()
        sched.advance(horizon)
        if "returned_at" not in ob.facts:
            do_stop(it)
        # a timer thread armed after stop() returned is alive from then on (nothing sets its cancel flag): the censuses behind R
        ret_t = ob.log[ob.facts["returned_at"] - 1][0]
        alive_later = sorted({o for at, (_st, ws) in later.items() if at > ret_t for o in ws})
        return {"log": ob.log, "late": ob.late, "statuses": [st for _at, (st, _w) in sorted(later.items()) if _at > ret_t] + [it.status],
                "alive_end": alive_later, "config": sorted(it.current_state_ids), **ob.facts}
    finally:
        sched.dead = True
        for vt in sched.threads:
            if vt.started and not vt.done:
                vt.sem.release()
        SI.threading, SI.time, SI.uuid = saved


RUNNERS = {"async": run_async, "sync": run_sync}


def _run(args):
    flavor, sc = args
    key = "c14stop-" + flavor
    impl.RUNNERS[key] = lambda _case: RUNNERS[flavor](sc)
    try:
        return impl.run_guarded(key, None, 20)
    finally:
        impl.RUNNERS.pop(key, None)


# ------------------------------------------------------------------------------------------------ judge
def judge(sc, flavor, r):
    """problems of one scenario, in the property's own terms (see the module docstring)"""
    out = []
    log = r["log"]
    R = r["returned_at"]
    S = r["called_at"]
    late_timers = {x[1] for x in r["late"] if x[0] == "timer"}
    late_svcs = {x[1] for x in r["late"] if x[0] == "service"}
    facts = {"stop_in_flight": r["stop_in_flight"], "created_on_stopped_interpreter": r["late"]}

    def bad(kind, detail, explained):
        # `explained`: every offender is an action of the macrostep that was in flight, or a task created on the stopped interpreter
        out.append({"kind": kind, "detail": detail, "scenario": sc, "flavor": flavor, "rest_of_macrostep_only": bool(explained), **facts,
                    "case": payload(sc, flavor)})
    if r["status_at_return"] != "stopped":
        bad("status-after-stop", f"status is {r['status_at_return']!r} when stop() returns", False)
    if any(s != "stopped" for s in r["statuses"]):
        bad("stopped-is-not-final", f"status after stop(): {r['statuses']}", False)
    after = [x for _t, x in log[R:]]
    recv = [x for _t, x in log[S:] if x.startswith("plugin:recv:")]
    if recv:
        bad("event-received-after-stop", f"{recv[:3]}", False)
    if r["alive_at_return"] or r["alive_end"]:
        # explained iff what is alive was created on the stopped interpreter — async: tasks are anonymous, so: no more of them than
        # were created there; sync: the owners of the waiting timer threads are owners of timers armed there
        n_late = len(r["late"])
        if flavor == "async":
            ok = n_late > 0 and len(r["alive_at_return"]) <= n_late and len(r["alive_end"]) <= n_late
        else:
            ok = set(r["alive_at_return"]) | set(r["alive_end"]) <= {x[2] for x in r["late"] if x[0] == "timer"}
        bad("task-alive-after-stop", f"alive when stop() returned: {r['alive_at_return']}; later: {r['alive_end']}", ok)
    armed = [x for x in after if x.startswith("arm:")]
    if armed:
        bad("armed-after-stop", f"{armed}", all(x.split(":", 2)[2] in late_timers for x in armed))
    started = [x for x in after if x.startswith("svc-start:")]
    if started:
        bad("service-started-after-stop", f"{started}", all(x.split(":", 1)[1] in late_svcs for x in started))
    expired = [x for x in after if x.startswith("send:after.")]
    if expired:
        bad("timer-expired-after-stop", f"{expired}", all(x[len("send:"):].rsplit(":", 1)[0] in late_timers for x in expired))
    delivered = [x for x in after if x.startswith(("svc-end:", "plugin:svc-done:", "plugin:svc-start:", "send:done.invoke.", "send:error.platform."))]
    if delivered:
        def sid(x):
            # "svc-end:<id>" | "plugin:svc-done:<id>" | "plugin:svc-start:<id>" | "send:done.invoke.<id>:<status>"
            if x.startswith("send:"):
                return x[len("send:"):].rsplit(":", 1)[0].split(".", 2)[2]
            return x.rsplit(":", 1)[1]
        bad("service-delivered-after-stop", f"{delivered[:4]}", all(sid(x) in late_svcs for x in delivered))
    actions = [x for x in after if x.startswith("action:")]
    if actions:
        bad("action-after-stop", f"{actions}", not recv)
    return out


def payload(sc, flavor):
    return {"machine": {"id": "m", "initial": "a", "states": {"a": {}}}, "guards": {}, "events": [], "c14stop": {"scenario": sc, "flavor": flavor}}


def replay_problems(c, flavor, only=None):
    """`./check C14 --replay`: run the scenario of a replay payload; `only`: the classifier a finding names"""
    if c.get("flavor") not in (None, "any", flavor):
        return []
    st, r = _run((flavor, c["scenario"]))
    if st != "ok":
        return [{"kind": "hang" if st == "hang" else "raw-exception", "step": -1, "at": None, "detail": str(r)[:200]}]
    probs = judge(c["scenario"], flavor, r)
    if only:
        probs = [p for p in probs if CLASSIFIERS[only](p, None, flavor)]
    return [{"kind": p["kind"], "step": -1, "at": None, "detail": p["detail"]} for p in probs]


def cls_stop_mid_macrostep(prob, case, flavor):
    """F72: stop() was called while a macrostep was in flight and the REST of that macrostep ran on the stopped interpreter —
    its remaining actions, its entries, `_schedule_state_tasks` (timers armed, services started behind stop()). Explains only:
    the stop was in flight AND every offender of the problem is an action of that macrostep or a task / service created on the
    stopped interpreter (`rest_of_macrostep_only`, established by `judge`)."""
    return (prob.get("kind") in KINDS and prob.get("stop_in_flight") is True and prob.get("rest_of_macrostep_only") is True)


CLASSIFIERS = {"c14-stop-inside-macrostep-rest-runs": cls_stop_mid_macrostep}


# ------------------------------------------------------------------------------------------------ the check
def scenarios(tier, seed):
    rng = random.Random(seed * 104729 + 72)
    reps = 1 if tier == "quick" else 6
    out = []
    for _ in range(reps):
        base = {"slow": rng.choice([40, 100, 250]), "delay": rng.choice([60, 100, 300]), "svc": rng.choice([50, 120])}
        for where in ("exit", "trans", "entry"):
            for a_t, p_t in itertools.product((False, True), repeat=2):
                common = dict(base, where=where, a_timer=a_t, p_timer=p_t)
                # ---- async
                out.append(("async", dict(common, mode="self-coro")))
                out.append(("async", dict(common, mode="self-task")))
                for stop_at in (10 + base["slow"] // 2, 10 + base["slow"] - 1, 10 + base["slow"], 10 + base["slow"] + 1):
                    out.append(("async", dict(common, mode="other", stop_at=stop_at)))
                td = rng.choice([20, 30, 60])
                out.append(("async", dict(common, mode="other", stop_at=max(11, 10 + base["slow"] - td // 2), teardown=td)))
                # ---- sync
                out.append(("sync", dict(common, mode="self")))
                for stop_at in (10 + base["slow"] // 2, 10 + base["slow"], 10 + base["slow"] + 1):
                    out.append(("sync", dict(common, mode="other", stop_at=stop_at)))
        for a_t, p_t in itertools.product((False, True), repeat=2):
            common = dict(base, where="none", a_timer=a_t, p_timer=p_t)
            for hook in ("on_event_received", "on_action_execute:exA", "on_action_execute:t1", "on_action_execute:enB", "on_transition"):
                out.append(("async", dict(common, mode="plugin:" + hook)))
                out.append(("sync", dict(common, mode="plugin:" + hook)))
            out.append(("async", dict(common, mode="subscriber")))
            out.append(("sync", dict(common, mode="subscriber")))
            out.append(("async", dict(common, mode="idle")))          # controls: stop() at an idle interpreter
            out.append(("sync", dict(common, mode="idle")))
    return out


def c14_stop_mid_macrostep(tier, seed):
    scen = scenarios(tier, seed)
    res = core.pool().map(_run, scen, chunksize=4)
    fails, samples = [], []
    nontrivial = 0
    hist = {"in_flight": 0, "rest_ran": 0, "cut_short_or_clean": 0, "notified_after_stop": 0}
    for (flavor, sc), (st, r) in zip(scen, res):
        if st != "ok":
            st, r = _run((flavor, sc))                      # once more, alone (a loaded machine)
            if st != "ok":
                fails.append({"kind": "hang" if st == "hang" else "raw-exception", "detail": f"{st}: {r}", "scenario": sc, "flavor": flavor,
                              "case": payload(sc, flavor)})
                continue
        probs = judge(sc, flavor, r)
        fails.extend(probs)
        if r["stop_in_flight"]:
            hist["in_flight"] += 1
            nontrivial += 1
            hist["rest_ran" if probs else "cut_short_or_clean"] += 1
        if any(x.startswith(("plugin:transition", "subscriber")) for _t, x in r["log"][r["returned_at"]:]):
            hist["notified_after_stop"] += 1
        if len(samples) < 2 and r["stop_in_flight"] and not probs:
            samples.append({"scenario": sc, "flavor": flavor, "log_tail": r["log"][-6:], "config": r["config"]})
    return {"evaluations": len(scen), "nontrivial": nontrivial, "ties": [], "fails": fails, "samples": samples, "exhaustive": False,
            "what": f"stop() INSIDE a macrostep, both engines, virtual time: called by an action of the transition (exit / transition / entry list), "
                    f"by another task or thread while a slow action runs (inside, at its end instant, with a slow service teardown), by a plugin hook "
                    f"or a subscriber x which states own tasks; judged at the moment stop() returned: status final, census of tasks / timer threads, "
                    f"nothing armed / started / expired / delivered / no action begun afterwards. {json.dumps(hist, sort_keys=True)} "
                    f"(notified_after_stop: on_transition / subscriber of the cut transition, not judged)"}
