"""C19: runs of the REAL code on one abstract definition (executed inside pool workers, under a watchdog).

build the four machines (JSON denotation + class-based + functional + builder, the Python styles from generated
source text `exec`-ed in a fresh namespace), fingerprint them, run them on the SyncInterpreter, and check that
repeated builds from one definition are independent.
"""
from __future__ import annotations
import copy, json, logging, signal, traceback

logging.disable(logging.CRITICAL)

from xstate_statemachine import create_machine, SyncInterpreter, MachineLogic  # noqa: E402
from xstate_statemachine.events import AfterEvent  # noqa: E402
from xstate_statemachine.models import ActionDefinition  # noqa: E402
from . import c19gen as G  # noqa: E402

STYLES = ["json", "class", "functional", "builder"]


class Hang(BaseException):
    pass


_ARMED = [False]


def _alarm(*_a):
    if _ARMED[0]:
        raise Hang()


def guarded(fn, arg, timeout=20):
    """run fn(arg) under a SIGALRM watchdog: ('ok', r) | ('hang', None) | ('crash', text).
    The timer repeats (an exception raised inside a GC / weakref callback is swallowed by CPython) but the handler
    only raises while the guarded call is running."""
    old = signal.signal(signal.SIGALRM, _alarm)
    res = ("hang", None)
    try:
        try:
            _ARMED[0] = True
            signal.setitimer(signal.ITIMER_REAL, timeout, 2.0)
            r = fn(arg)
            _ARMED[0] = False
            res = ("ok", r)
        except Hang:
            _ARMED[0] = False
            res = ("hang", None)
        except Exception as x:
            _ARMED[0] = False
            res = ("crash", f"{type(x).__name__}: {x}\n" + traceback.format_exc()[-1500:])
    except Hang:          # fired again while unwinding
        _ARMED[0] = False
        res = ("hang", None)
    finally:
        _ARMED[0] = False
        signal.setitimer(signal.ITIMER_REAL, 0)
        signal.signal(signal.SIGALRM, old)
    return res


# ------------------------------------------------------------------------------------------ builders
def json_logic(D, log, gv):
    def mk_action(ref):
        def f(interpreter, context, event, action_def):
            log.append(ref + "@" + event.type)
            if ref.startswith("inc"):
                context["count"] = context.get("count", 0) + 1
        return f

    def mk_guard(ref):
        return lambda context, event: gv.get(ref, True)

    def mk_service(ref):
        def f(interpreter, context, event):
            log.append("svc:" + ref)
            return 7
        return f
    lg = D["logic"]
    return MachineLogic(actions={x["ref"]: mk_action(x["ref"]) for x in lg["actions"]},
                        guards={x["ref"]: mk_guard(x["ref"]) for x in lg["guards"]},
                        services={x["ref"]: mk_service(x["ref"]) for x in lg["services"]})


def make_build(style, D, seed):
    """returns (build, log): build() gives a fresh machine from the ONE definition held in the namespace"""
    log = []
    gv = dict(D["gv"])
    if style == "json":
        def build():
            return create_machine(G.denote_json(D), logic=json_logic(D, log, gv))
        return build, log, None
    src = {"class": G.render_class, "functional": G.render_functional, "builder": G.render_builder}[style](D, seed)
    ns = {"LOG": log, "GV": gv, "__name__": f"c19_{style}"}
    exec(compile(src, f"<c19-{style}>", "exec"), ns)
    return ns["build"], log, src


# ------------------------------------------------------------------------------------------ fingerprint
def canon(x):
    return json.loads(json.dumps(x, sort_keys=True, default=lambda o: f"<{type(o).__name__}>"))


def fp_guard(g):
    if g is None:
        return None
    return {"type": g.type, "params": canon(g.params), "children": [fp_guard(c) for c in g.children], "composite": bool(g.is_composite)}


def fp_action(a):
    return {"type": a.type, "params": canon(a.params)}


def fp_trans(t, it):
    tgt = None
    if t.target_str:
        try:
            tgt = it._resolve_target_state_robustly(t).id
        except Exception as x:
            tgt = "UNRESOLVED:" + type(x).__name__
    return {"ev": t.event, "tgt": tgt, "guard": fp_guard(t.guard_def), "acts": [fp_action(a) for a in t.actions],
            "reenter": bool(t.reenter), "forbidden": bool(getattr(t, "forbidden", False))}


def fp_node(n, it):
    return {
        "id": n.id, "key": n.key, "type": n.type, "initial": n.initial, "history": n.history,
        "entry": [fp_action(a) for a in n.entry], "exit": [fp_action(a) for a in n.exit],
        "on": {ev: [fp_trans(t, it) for t in ts] for ev, ts in n.on.items()},
        "after": {str(k): [fp_trans(t, it) for t in ts] for k, ts in n.after.items()},
        "invoke": [{"id": i.id, "src": i.src, "input": canon(i.input), "onDone": [fp_trans(t, it) for t in i.on_done],
                    "onError": [fp_trans(t, it) for t in i.on_error]} for i in n.invoke],
        "onDone": fp_trans(n.on_done, it) if n.on_done else None,
        "tags": sorted(n.tags), "meta": canon(n.meta),
        "states": {k: fp_node(c, it) for k, c in n.states.items()},
    }


def fingerprint(machine):
    it = SyncInterpreter(machine)
    return {"root": fp_node(machine, it), "context": canon(machine.initial_context), "max_iterations": machine.max_iterations,
            "logic": {"actions": sorted(machine.logic.actions), "guards": sorted(machine.logic.guards), "services": sorted(machine.logic.services)}}


def first_diff(a, b, path=""):
    if type(a) is not type(b):
        return (path, a, b)
    if isinstance(a, dict):
        for k in sorted(set(a) | set(b), key=str):
            if k not in a or k not in b:
                return (f"{path}/{k}", a.get(k, "<absent>"), b.get(k, "<absent>"))
            d = first_diff(a[k], b[k], f"{path}/{k}")
            if d:
                return d
        return None
    if isinstance(a, list):
        if len(a) != len(b):
            return (path + "/len", a, b)
        for i, (x, y) in enumerate(zip(a, b)):
            d = first_diff(x, y, f"{path}/{i}")
            if d:
                return d
        return None
    return None if a == b else (path, a, b)


# ------------------------------------------------------------------------------------------ traces
def run_trace(machine, log, ops):
    it = SyncInterpreter(machine)
    out = []

    def obs(err=""):
        out.append({"C": sorted(n.id for n in it._active_state_nodes), "T": list(log), "S": it.status, "X": canon(it.context), "E": err})
        log.clear()
    log.clear()
    try:
        try:
            it.start()
            obs()
        except Exception as x:
            obs(type(x).__name__)
        for op in ops:
            try:
                it.send(AfterEvent(type=op[1]) if op[0] == "after" else op[1])
                obs()
            except Exception as x:
                obs(type(x).__name__)
    finally:
        # also on a watchdog expiry: no timer thread of this interpreter may outlive the case
        try:
            it.stop()
        except BaseException:
            pass
    return out


# ------------------------------------------------------------------------------------------ independence
MARK = "__c19_mutated__"


def _poison(x, deep, seen):
    """insert a marker into every mutable container reachable from x (dict / list / set)"""
    if id(x) in seen:
        return
    seen.add(id(x))
    if isinstance(x, dict):
        for v in list(x.values()):
            if deep:
                _poison(v, deep, seen)
        x[MARK] = 1
    elif isinstance(x, list):
        for v in list(x):
            if deep:
                _poison(v, deep, seen)
        x.append(MARK)
    elif isinstance(x, set):
        x.add(MARK)


def mutate_machine(machine, deep):
    """mutate the containers hanging off a built machine. shallow: the containers the parser created for THIS machine
    (entry/exit/actions lists, on/after maps, tags, the state's meta dict); deep: also everything reachable through
    them (action params, guard params, nested meta values, the context template)"""
    seen = set()

    def tr(t):
        t.actions.append(ActionDefinition(MARK))
        if deep:
            for a in t.actions:
                _poison(a.params, True, seen)
            g = t.guard_def
            stack = [g] if g is not None else []
            while stack:
                gg = stack.pop()
                _poison(gg.params, True, seen)
                stack.extend(gg.children)

    def node(n):
        for lst in (n.entry, n.exit):
            if deep:
                for a in lst:
                    _poison(a.params, True, seen)
            lst.append(ActionDefinition(MARK))
        for ts in list(n.on.values()) + list(n.after.values()):
            for t in list(ts):
                tr(t)
        if n.on_done:
            tr(n.on_done)
        for i in n.invoke:
            for t in i.on_done + i.on_error:
                tr(t)
            if deep:
                _poison(i.input, True, seen)
        n.on[MARK] = []
        n.tags.add(MARK)
        _poison(n.meta, deep, seen)
        for c in n.states.values():
            node(c)
    node(machine)
    if deep:
        _poison(machine.initial_context, True, seen)
    return machine


def independence(style, D, seed):
    """problems: a machine built earlier, or one built later from the same definition, changes when another is mutated"""
    probs = []
    for deep in (False, True):
        build, _log, _src = make_build(style, D, seed)
        m1 = build()
        m2 = build()
        base = fingerprint(m2)
        if fingerprint(m1) != base:
            probs.append({"kind": "rebuild-differs", "style": style, "detail": "two consecutive builds from one definition differ: %r" % (first_diff(fingerprint(m1), base),)})
            return probs
        mutate_machine(m1, deep)
        d = first_diff(base, fingerprint(m2))
        if d:
            probs.append({"kind": "not-independent", "style": style, "level": "deep" if deep else "shallow", "which": "sibling",
                          "detail": f"mutating one built machine changed another built from the same definition at {d[0]}: {str(d[1])[:80]} -> {str(d[2])[:80]}"})
        try:
            m3 = build()
            d3 = first_diff(base, fingerprint(m3))
        except Exception as x:
            d3 = ("build", "ok", type(x).__name__)
        if d3:
            probs.append({"kind": "not-independent", "style": style, "level": "deep" if deep else "shallow", "which": "later-build",
                          "detail": f"after mutating a built machine the next build from the same definition differs at {d3[0]}: {str(d3[1])[:80]} -> {str(d3[2])[:80]}"})
    return probs


# ------------------------------------------------------------------------------------------ one case
def eval_def(D, seed, with_indep=True):
    """monitor of C19(a) on one definition; returns {"problems": [...], "info": {...}}"""
    fps, traces, errs, srcs = {}, {}, {}, {}
    for st in STYLES:
        try:
            build, log, src = make_build(st, D, seed)
            srcs[st] = src
            fps[st] = fingerprint(build())
            traces[st] = run_trace(build(), log, D["ops"])
        except Exception as x:
            errs[st] = type(x).__name__ + ": " + str(x)[:200]
    probs = []
    ref = "json"
    if ref in errs:
        # the denotation itself is rejected: every style must reject it too
        for st in STYLES[1:]:
            if st not in errs:
                probs.append({"kind": "accepts-what-json-rejects", "style": st, "detail": errs[ref]})
        return {"problems": probs, "info": {"json_error": errs[ref]}}
    for st in STYLES[1:]:
        if st in errs:
            probs.append({"kind": "build-fails", "style": st, "detail": errs[st]})
            continue
        d = first_diff(fps[ref], fps[st])
        if d:
            probs.append({"kind": "structure-differs", "style": st, "at": d[0],
                          "detail": f"{d[0]}: json={str(d[1])[:160]} {st}={str(d[2])[:160]}"})
        dt = first_diff(traces[ref], traces[st])
        if dt:
            probs.append({"kind": "trace-differs", "style": st, "at": dt[0],
                          "detail": f"{dt[0]}: json={str(dt[1])[:160]} {st}={str(dt[2])[:160]}"})
    if with_indep:
        for st in STYLES[1:]:
            if st not in errs:
                probs.extend(independence(st, D, seed))
    nontriv = any(len(o["T"]) > 0 or o["C"] != traces[ref][0]["C"] for o in traces[ref][1:])
    return {"problems": probs, "info": {"nontrivial": nontriv, "final": traces[ref][-1]["C"], "steps": len(traces[ref])}}


def worker(args, timeout=60):
    D, seed, with_indep = args
    try:
        st, r = guarded(lambda a: eval_def(*a), (D, seed, with_indep), timeout)
    except BaseException as x:      # never let a pool worker die
        st, r = "hang", repr(x)
    if st == "ok":
        return r
    return {"problems": [{"kind": "hang" if st == "hang" else "harness-crash", "style": "-", "detail": str(r)[:800]}], "info": {}}
