"""Registration of the property checks that live in their own modules (one block per module, so that
independently developed checks merge without touching props.py)."""
from __future__ import annotations


def _lazy(modname, name):
    def f(tier, seed):
        import importlib
        mod = importlib.import_module("xsmverif." + modname)
        return getattr(mod, name)(tier, seed)
    f.__name__ = name
    return f


def _call(modname, name):
    def f(*a, **k):
        import importlib
        mod = importlib.import_module("xsmverif." + modname)
        return getattr(mod, name)(*a, **k)
    f.__name__ = name
    return f


def register(PROPS, CLASSIFIERS, REPLAY_RUNNERS):
    # ------------------------------------------------------------------ C12 snapshots
    PROPS["C12"] = {
        "flavors": ["sync", "async"], "streams": [],
        "oracles": [_call("c12", "c12_replay_monitor")], "oracles_on_replay_only": True,
        "q_checks": [_lazy("c12", "c12_cut_points"), _lazy("c12", "c12_rejects"), _lazy("c12", "c12_directed")],
        "lake_targets": ["driver_snap"], "thorough_scale": 8,
    }

    # ------------------------------------------------------------------ C14 lifecycle / C04 ordering
    def _c14_replay(case, obs, flavor):
        if "c14stop" in case:       # stop() inside a macrostep (c14stop.py): the payload carries its own scenario
            return _call("c14stop", "replay_problems")(case["c14stop"], flavor, case.get("finding_classifier"))
        if "c15" in case:           # an actor world ended by stop() of the root (c14actors.py)
            return _call("c14actors", "replay_problems")(case["c15"], flavor)
        return _call("c14", "replay_monitor")("C14", case, flavor)

    def _c04_replay(case, obs, flavor):
        return _call("c14", "replay_monitor")("C04", case, flavor)
    PROPS["C14"] = {"flavors": ["sync", "async"], "streams": [], "oracles": [_c14_replay],
                    "q_checks": [_lazy("c14", "c14_lifecycle")], "lake_targets": ["driver_life"]}
    PROPS["C04"] = {"flavors": ["sync", "async"], "streams": [], "oracles": [_c04_replay],
                    "q_checks": [_lazy("c14", "c04_ordering")], "lake_targets": ["driver_life"]}

    # (F10 repaired: the classifier "sync-drain-budget-counts-external-events" - an accepted external event lost in a
    #  sync call that spent its whole drain budget - is gone: such a loss is a violation again)
    def _async_breaker_drops_external(prob, case, flavor):
        """F30: an external event vanished in a call in which the async chain breaker fired"""
        return flavor == "async" and prob.get("kind") == "external-event-lost" and bool(prob.get("cut"))

    def _async_start_interleaved(prob, case, flavor):
        """F42: the run loop processed an event while start() was still entering the initial states"""
        return flavor == "async" and prob.get("kind") == "macrosteps-interleaved" and (prob.get("call") or [None])[0] == "start"
    CLASSIFIERS["async-chain-breaker-drops-external-event"] = _async_breaker_drops_external
    CLASSIFIERS["async-start-runs-loop-during-initial-entry"] = _async_start_interleaved

    # ------------------------------------------------------------------ C19 Python-defined machines, discovery
    def _c19cls(name):
        def f(prob, case, flavor):
            from . import c19
            return c19.CLASSIFIERS[name](prob, case, flavor)
        return f
    PROPS["C19"] = {
        "flavors": ["sync"], "streams": [], "oracles": [],
        "q_checks": [_lazy("c19", n) for n in ("c19_snake", "c19_lookup", "c19_required", "c19_arity", "c19_compile",
                                               "c19_discovery", "c19_styles")],
        "lake_targets": ["driver_py"],
        # explored by function-level checks only; its runner classifies their monitor failures itself
        "runner": lambda prop, tier, seed: _call("c19", "run")(prop, tier, seed),
        "replayer": lambda prop, path: _call("c19", "replay_file")(path),
    }
    for _n in ("c19-two-states-with-the-same-bare-name", "c19-builder-appends-where-other-styles-replace",
               "c19-deep-shared-substructure-between-builds", "c19-discovery-skips-user-action-named-like-builtin",
               "c19-spawn-directive-in-invoke-transition-demanded-as-action",
               "c19-spawn-directive-in-invoke-transition-rejected-at-creation",
               "c19-machinelogic-subclass-verbatim-names-no-failfast"):
        CLASSIFIERS[_n] = _c19cls(_n)

    # ------------------------------------------------------------------ C17 code generator
    def _c17cls(name):
        def f(prob, case, flavor):
            from . import c17
            return c17.CLASSIFIERS[name](prob, case, flavor)
        return f
    PROPS["C17"] = {
        # the code generator is not an engine run: its own exploration driver (same verdict contract), see c17.py
        "flavors": ["sync", "async"], "streams": [], "oracles": [],
        "q_checks": [_lazy("c17", n) for n in ("c17_naming", "c17_guard_ir", "c17_cli")],
        "lake_targets": ["drivergen"],
        "runner": lambda prop, tier, seed: _call("c17", "run_check")(prop, tier, seed),
        "replay": lambda prop, path: _call("c17", "replay_main")(prop, path),
    }
    for _n in ("c17-guard-structure-lost-pythonic", "c17-stateIn-stub-overrides-builtin",
               "c17-json-template-name-not-extracted", "c17-json-template-operator-named-guard-not-extracted",
               "c17-json-template-name-not-discoverable",
               "c17-single-file-invalid-python", "c17-service-alias-raw-identifier",
               "c17-single-file-stub-name-collision"):
        CLASSIFIERS[_n] = _c17cls(_n)

    # ------------------------------------------------------------------ C15 actors
    def _c15_replay_oracle(case, obs, flavor):
        """replay files of C15 carry their own payload (`case["c15"]`: commands + op sequence over an actor tree)"""
        if "c15" not in case:
            return []
        from . import c15
        return c15.replay_problems(case["c15"], flavor)
    PROPS["C15"] = {"flavors": ["sync", "async"], "streams": [], "oracles": [_c15_replay_oracle],
                    "q_checks": [_lazy("c15", "c15_actors")], "lake_targets": ["driver_actors"]}
    from . import c15cls
    CLASSIFIERS.update(c15cls.CLASSIFIERS)

    # ------------------------------------------------------------------ C08 delayed transitions / C09 invoked services
    def _c08_replay_monitor(case, obs, flavor):
        """replays of the C08/C09 findings carry an agenda on a virtual clock: c08.py runs them itself"""
        from . import c08
        return c08.replay_monitor(case, obs, flavor)

    def _c08cls(name):
        def f(prob, case, flavor):
            from . import c08
            return c08.CLASSIFIERS[name](prob, case, flavor)
        return f
    PROPS["C08"] = {"flavors": ["async", "sync"], "streams": [], "oracles": [_c08_replay_monitor], "oracles_on_replay_only": True,
                    "q_checks": [_lazy("c08", n) for n in ("c08_async", "c08_placements", "c08_instants", "c08_deep", "c08_sync")],
                    "lake_targets": ["driver_rt"], "thorough_scale": 12}
    PROPS["C09"] = {"flavors": ["async", "sync"], "streams": [], "oracles": [_c08_replay_monitor], "oracles_on_replay_only": True,
                    "q_checks": [_lazy("c08", n) for n in ("c09_async", "c09_instants", "c09_deep", "c09_sync")],
                    "lake_targets": ["driver_rt"], "thorough_scale": 12}
    for _n in ("stale-queued-after-event", "after-alternatives-fire-once-each", "rollback-leaves-or-duplicates-tasks",
               "stale-queued-done-event", "stop-inside-macrostep-rest-runs"):
        CLASSIFIERS[_n] = _c08cls(_n)

    # ------------------------------------------------------------------ C05: the pure API, modelled (Model/Pure.lean)
    PROPS["C05"]["q_checks"].append(_lazy("c05pure", "c05_pure_tie"))
    PROPS["C05"].setdefault("lake_targets", []).append("driver_pure")

    # ------------------------------------------------------------------ C11: "the same whether recorded or restored from a snapshot"
    def c11_history_after_restore(tier, seed):
        """the snapshot cut-point machinery of C12 on history-heavy machines: a machine restored at any quiescent cut
        resolves later history targets exactly like the uninterrupted run"""
        from . import c12
        old = c12.PROFILES
        c12.PROFILES = ("histdirected", "history")
        try:
            r = c12.c12_cut_points(tier, seed, n=25)
        finally:
            c12.PROFILES = old
        r["what"] = "history after a snapshot round trip (C11): " + r["what"]
        return r
    PROPS["C11"].setdefault("q_checks", []).append(c11_history_after_restore)
    PROPS["C11"].setdefault("lake_targets", []).append("driver_snap")

    # ------------------------------------------------------------------ C12 over actor trees (c12actors.py)
    PROPS["C12"]["q_checks"].append(_lazy("c12actors", "c12_actor_trees"))
    PROPS["C12"]["q_checks"].append(_lazy("c12err", "c12_error_status"))

    def _c12_replay(case, obs, flavor):
        """actor-tree cases carry their own payload (`case["c12a"]`); every other C12 replay is a plain cut-point case"""
        if "c12a" in case:
            return _call("c12actors", "replay_problems")(case["c12a"], flavor)
        if "c12err" in case:        # a snapshot taken in the error status (c12err.py)
            return _call("c12err", "replay_problems")(case["c12err"], flavor)
        return _call("c12", "c12_replay_monitor")(case, obs, flavor)
    PROPS["C12"]["oracles"] = [_c12_replay]

    def _c12acls(name):
        def f(prob, case, flavor):
            from . import c12actors
            return c12actors.CLASSIFIERS[name](prob, case, flavor)
        return f
    for _n in ("c12a-system-entry-of-deep-actor-lost-on-restore", "c12a-sync-restored-child-has-no-watcher-thread",
               "c12a-system-entry-of-parked-actor-dropped", "c12a-async-resume-raises-on-stopped-child"):
        CLASSIFIERS[_n] = _c12acls(_n)

    # ------------------------------------------------------------------ C14: stop() while a service's teardown misbehaves
    PROPS["C14"]["q_checks"].append(_lazy("c14svc", "c14_raising_service_teardown"))

    # ------------------------------------------------------------------ C13: delayed self-sends (monitor only; no timers in the engine model)
    PROPS["C13"].setdefault("q_checks", []).append(_lazy("multichecks", "c13_delayed_self_sends"))

    # ------------------------------------------------------------------ C15: reacting machines
    # the life of a send id exercised THROUGH deliveries (re-arm from inside the delivery it caused, ...); same monitor
    # (c15_impl.post_op), tied to the actor model with every reaction as an explicit command (c15react.py)
    PROPS["C15"]["q_checks"].append(_lazy("c15react", "c15_reacting"))
    # `./check C15 quick --replay <file>`: C15 cases are actor-tree op sequences, not engine cases - c15.main runs them
    PROPS["C15"]["replayer"] = lambda prop, path: _call("c15", "main")(["c15", "--replay", path])

    # ------------------------------------------------------------------ F70: bursts of short chains (C04 + C13)
    def _burst_of_short_chains_cut(prob, case, flavor):
        """F70 (both engines, C04 and C13): a bound cut discarded RAISED events in a call in which no external event's
        causal tree (rule `short-chains-cut-by-burst` of c14.c04_monitor) exceeded maxIterations - the bounds count
        self-raised events per busy period, not per causal chain. Nothing else is matched: an external event lost,
        a raised event lost without a cut, a hang, a cut of a single short chain (C13 `short-chain-cut`) stay violations"""
        return (prob.get("kind") == "short-chains-cut-by-burst" and bool(prob.get("cut")) and bool(prob.get("lost"))
                and isinstance(prob.get("largest"), int) and prob["largest"] <= prob.get("limit", -1))
    CLASSIFIERS["burst-of-short-chains-is-cut"] = _burst_of_short_chains_cut

    # C13 "chains shorter than the bound run to their natural end", per causal chain: the bursts of c14.py under the
    # causal-tree rule alone (q_check), and the replay of a payload that carries lifecycle `calls` (F70)
    def _c13_burst_replay(case, obs, flavor):
        if "calls" not in case:
            return []
        return [p for p in _call("c14", "replay_monitor")("C04", case, flavor)
                if p.get("kind") in ("short-chains-cut-by-burst", "hang", "raw-exception")]
    PROPS["C13"]["oracles"] = list(PROPS["C13"]["oracles"]) + [_c13_burst_replay]
    PROPS["C13"].setdefault("q_checks", []).append(_lazy("c14", "c13_bursts_of_short_chains"))

    # ------------------------------------------------------------------ C16: "... regardless of ... which interpreter is used"
    def c16_across_engines(tier, seed):
        from . import multichecks
        r = multichecks.c05_cross_engine(tier, seed + 16, profiles=("history", "done", "probe", "parallways"), n=40)
        r["what"] = ("the same (machine, logic, events) on SyncInterpreter and on Interpreter: identical configurations, contexts and ORDERED action lists at every "
                     "drained point (entry / exit order across parallel regions, history restoration); " + r["what"])
        return r
    PROPS["C16"].setdefault("q_checks", []).append(c16_across_engines)

    # ------------------------------------------------------------------ C13: pure / enqueueActions callbacks that re-enqueue themselves (F77)
    def _c13expand_replay(case, obs, flavor):
        if "c13expand" not in case:
            return []
        return _call("c13expand", "replay_problems")(case["c13expand"], flavor)
    PROPS["C13"]["oracles"] = list(PROPS["C13"]["oracles"]) + [_c13expand_replay]
    PROPS["C13"]["q_checks"].append(_lazy("c13expand", "c13_self_expanding_actions"))

    def _c13expand_cls(prob, case, flavor):
        from . import c13expand
        return c13expand.cls_width_runaway(prob, case, flavor)
    CLASSIFIERS["expansion-width-runaway"] = _c13expand_cls
    # the same rule through `choose` (JSON machines): tied to the model's `St.expCut` (c13deep.py)
    PROPS["C13"]["q_checks"].append(_lazy("c13deep", "c13_deep_choose_siblings"))
    PROPS["C13"].setdefault("lake_targets", []).append("driver_life")

    # ------------------------------------------------------------------ C14: stop() INSIDE a macrostep (directed, both engines; F72)
    PROPS["C14"]["q_checks"].append(_lazy("c14stop", "c14_stop_mid_macrostep"))

    # ------------------------------------------------------------------ C14: stop() of an interpreter that owns an actor subtree
    PROPS["C14"]["q_checks"].append(_lazy("c14actors", "c14_actor_subtrees"))
    PROPS["C14"]["lake_targets"] = list(PROPS["C14"].get("lake_targets", [])) + ["driver_actors"]

    def _c14stopcls(prob, case, flavor):
        from . import c14stop
        return c14stop.CLASSIFIERS["c14-stop-inside-macrostep-rest-runs"](prob, case, flavor)
    CLASSIFIERS["c14-stop-inside-macrostep-rest-runs"] = _c14stopcls

    # ------------------------------------------------------------------ C07: guards whose params callable raises; C10: done data
    def _c07params_replay(case, obs, flavor):
        if "c07params" not in case:
            return []
        return _call("c07params", "replay_problems")(case["c07params"], flavor)
    PROPS["C07"]["oracles"] = list(PROPS["C07"]["oracles"]) + [_c07params_replay]
    PROPS["C07"]["q_checks"].append(_lazy("c07params", "c07_raising_guard_params"))

    # ------------------------------------------------------------------ C07: a raising plugin hook / subscriber / emit listener changes nothing
    def _c07obs_replay(case, obs, flavor):
        if "fault_at" not in case:
            return []
        return _call("c07obs", "replay_problems")(case, flavor)
    PROPS["C07"]["oracles"] = list(PROPS["C07"]["oracles"]) + [_c07obs_replay]
    PROPS["C07"]["q_checks"].append(_lazy("c07obs", "c07_observer_faults"))
    PROPS["C10"].setdefault("q_checks", []).append(_lazy("c10data", "c10_done_data"))
