"""Registration of the property checks that live in their own modules (one block per module, so that
independently developed checks merge without touching props.py)."""
from __future__ import annotations


def _lazy(modname, name):
    def f(tier, seed):
        import importlib
        mod = importlib.import_module("xsmverif." + modname)
        return getattr(mod, name)(tier, seed)
    f.__name__ = name
    return f


def _call(modname, name):
    def f(*a, **k):
        import importlib
        mod = importlib.import_module("xsmverif." + modname)
        return getattr(mod, name)(*a, **k)
    f.__name__ = name
    return f


def register(PROPS, CLASSIFIERS, REPLAY_RUNNERS):
    # ------------------------------------------------------------------ C12 snapshots
    PROPS["C12"] = {
        "flavors": ["sync", "async"], "streams": [],
        "oracles": [_call("c12", "c12_replay_monitor")], "oracles_on_replay_only": True,
        "q_checks": [_lazy("c12", "c12_cut_points"), _lazy("c12", "c12_rejects"), _lazy("c12", "c12_directed")],
        "lake_targets": ["driver_snap"], "thorough_scale": 8,
    }
    CLASSIFIERS["snapshot-resorts-history-by-id"] = _call("c12", "classify_history_order")
    CLASSIFIERS["from_snapshot-shape-validation"] = _call("c12", "classify_shape_validation")
