"""Runners that drive the REAL engines (from /repo/src, current working tree) on a case.

Only the public API plus reads of interpreter attributes are used:
  * a Recorder `MachineLogic` (any non-built-in action name is a marker action that
    appends `<name>@<event type>` to the log; guards come from the case's valuation),
  * a Recorder plugin (`on_transition`, `on_action_error`, `on_event_received`),
  * for the async engine a virtual-time asyncio loop.

Each command (start / send e) yields one observation dict:
  C sorted active ids | S status | T ordered log | H recorded history | E error kind | X #logged errors
"""
from __future__ import annotations
import asyncio, copy, heapq, json, logging, selectors, signal, sys, os, time

logging.disable(logging.WARNING)          # ERROR records reach the counting handler below, nothing is printed

from xstate_statemachine import create_machine, SyncInterpreter, Interpreter, MachineLogic  # noqa: E402
from xstate_statemachine.exceptions import XStateMachineError  # noqa: E402
from xstate_statemachine.plugins import PluginBase  # noqa: E402
from xstate_statemachine.actions import BUILTIN_ACTION_ALIASES  # noqa: E402
from xstate_statemachine.events import Event, AfterEvent, DoneEvent  # noqa: E402

INIT_NAMES = ("___xstate_statemachine_init___",)


class Hang(BaseException):
    pass


_HUNG = [False]


def _alarm(*_a):
    # the exception may land inside an asyncio task instead of the main coroutine; the flag is
    # what run_guarded trusts
    _HUNG[0] = True
    raise Hang()


_THREAD_BASE = [0, 0.0]


def _cap_threads():
    """a library that spins may start a timer / delayed-send thread per iteration (REAL threads in the generic runners):
    past 12,000 live threads the run is the hang it would be reported as anyway, and must not take the machine with it"""
    import threading
    if getattr(threading.Thread.start, "_xsm_capped", False):
        return
    orig = threading.Thread.start

    def start(self, *a, **k):
        # (relative to the threads that were alive when this run began: sleeping timer threads of EARLIER cases of the
        #  same worker process - hour-long delayed sends - must not count against this one)
        n = threading.active_count()
        fresh = time.time() - _THREAD_BASE[1] < 120        # a baseline taken by the run in progress (runners that take none: absolute cap)
        if (n - _THREAD_BASE[0] > 12000) if fresh else (n > 20000):
            _HUNG[0] = True
            raise Hang()
        return orig(self, *a, **k)
    start._xsm_capped = True
    threading.Thread.start = start


class BoundedLog(list):
    """the record log of one run: a macrostep that never ends must not be able to fill the memory with records before
    the watchdog fires - past the bound the run is the hang it would be reported as anyway"""
    LIMIT = 400000

    def append(self, x):
        if len(self) >= self.LIMIT:
            _HUNG[0] = True
            raise Hang()
        list.append(self, x)


_cap_threads()


class GuardRaises(Exception):
    pass


class ActionRaises(Exception):
    pass


class RecorderActions(dict):
    """actions registry: every non-built-in name is a marker action"""

    def __init__(self, log, ctx_ops=True):
        super().__init__()
        self.log = log

    def get(self, k, d=None):
        if k in BUILTIN_ACTION_ALIASES:
            return None
        if k.startswith("missing:"):
            return None
        log = self.log
        if k.startswith("async:"):
            async def af(i, c, e, a, _k=k):
                log.append(f"{_k}@{canon_ev(e.type)}")
            return af

        def f(i, c, e, a, _k=k):
            log.append(f"{_k}@{canon_ev(e.type)}")
            if _k.startswith("fail:"):
                raise ActionRaises(_k)
            if _k.startswith("inc:"):
                key = _k.split(":")[1]
                c[key] = int(c.get(key, 0)) + 1
            elif _k.startswith("set:"):
                _, key, val = _k.split(":")[:3]
                c[key] = int(val)
        return f

    def __contains__(self, k):
        return self.get(k) is not None


def canon_ev(t: str) -> str:
    """the synthetic start/entry/exit event names differ between the engines by design"""
    if t in INIT_NAMES or t.startswith("entry."):
        return "<init>"
    if t == "___xstate_statemachine_exit___" or t.startswith("exit."):
        return "<exit>"
    return t


def make_guard(name, val):
    def g(ctx, ev):
        if val == "t":
            return True
        if val == "f":
            return False
        raise GuardRaises(name)
    return g


class RecorderGuards(dict):
    """guards registry: valuation table + context predicates `lt:k:n`, `ge:k:n`, `eq:k:n`"""

    def __init__(self, gv):
        super().__init__({k: make_guard(k, v) for k, v in gv.items()})

    def _ctxguard(self, k):
        parts = k.split(":")
        if len(parts) == 3 and parts[0] in ("lt", "ge", "eq"):
            try:
                n = int(parts[2])
            except ValueError:
                return None
            key, op = parts[1], parts[0]

            def g(ctx, ev):
                v = int(ctx.get(key, 0)) if isinstance(ctx, dict) else 0
                return v < n if op == "lt" else (v >= n if op == "ge" else v == n)
            return g
        return None

    def get(self, k, d=None):
        if dict.__contains__(self, k):
            return dict.get(self, k)
        return self._ctxguard(k) or d

    def __contains__(self, k):
        return dict.__contains__(self, k) or self._ctxguard(k) is not None


class RecorderPlugin(PluginBase):
    def __init__(self, log):
        self.log = log

    def on_transition(self, interpreter, from_states, to_states, transition):
        if transition.event in INIT_NAMES:
            return
        ids = sorted(n.id for n in interpreter._active_state_nodes)
        self.log.append("#t:" + ",".join(ids))

    def on_event_received(self, interpreter, event):
        self.log.append("#recv:" + event.type)

    def on_action_error(self, interpreter, action, error):
        self.log.append("#aerr:" + action.type)


def mklogic(log, gv):
    lg = MachineLogic()
    lg.guards = RecorderGuards(gv)
    lg.actions = RecorderActions(log)
    return lg


class _SelfSends:
    """counts the events the interpreter sends to ITSELF (raise, done.state, ...): every enqueue goes through the
    public send(), so an instance-level wrapper sees them; the harness flags its own calls"""

    def __init__(self, it, is_async):
        self.n = 0
        self.mine = False
        orig = it.send
        if is_async:
            async def send(*a, **k):
                if not self.mine:
                    self.n += 1
                return await orig(*a, **k)
        else:
            def send(*a, **k):
                if not self.mine:
                    self.n += 1
                return orig(*a, **k)
        it.send = send

    def take(self):
        n, self.n = self.n, 0
        return n


def _subscribe(it):
    """a subscriber that records what it SEES: the configuration, and the configuration of the snapshot it takes there
    (C01 names subscriber callbacks and snapshots as observation points) - kept apart from the record log"""
    seen = []

    def cb(i):
        if len(seen) < 5000:
            ids = sorted(n.id for n in i._active_state_nodes)
            try:
                snap = sorted(i.get_persisted_snapshot().get("configuration") or [])
            except Exception as x:      # noqa: BLE001
                snap = ["SNAPSHOT-RAISED:" + type(x).__name__]
            seen.append([ids, snap])
    it.subscribe(cb)
    return seen


def _take(seen):
    out = list(seen)
    del seen[:]
    return out


def observe(it, log, err="", nerr=0, cuts=0):
    ids = sorted(n.id for n in it._active_state_nodes)
    hist = {k: [n.id for n in v] for k, v in it._history.items()}
    ctx = {k: v for k, v in dict(it.context).items() if isinstance(v, int)} if isinstance(it.context, dict) else {}
    q = it._event_queue
    return {"C": ids, "S": it.status, "T": list(log), "H": hist, "E": err, "X": nerr, "K": ctx, "cuts": cuts,
            "qlen": q.qsize() if hasattr(q, "qsize") else len(q)}


def _fingerprint(it):
    q = it._event_queue
    qlen = q.qsize() if hasattr(q, "qsize") else len(q)
    return (tuple(sorted(n.id for n in it._active_state_nodes)), json.dumps(it.context, sort_keys=True, default=str) if isinstance(it.context, dict) else "",
            tuple(sorted((k, tuple(n.id for n in v)) for k, v in it._history.items())), it.status, qlen)


def _probe_can(it, op, log):
    """can(event) before delivering it: the answer, and whether asking changed anything"""
    if op[0] != "send":
        return None, False
    before = (_fingerprint(it), len(log))
    try:
        ans = bool(it.can(op[1]))
    except Exception as e:      # can() must never raise
        ans = "EXC:" + type(e).__name__
    after = (_fingerprint(it), len([r for r in log if not r.startswith("#")]) if False else len(log))
    return ans, before != after


def _mk_event(op):
    kind = op[0]
    if kind == "send":
        return op[1]
    if kind == "after":
        return AfterEvent(type=op[1])
    if kind == "done":
        return DoneEvent(type=op[1], data=None, src=op[2])
    raise ValueError(op)


def case_ops(case):
    if "ops" in case:
        return case["ops"]
    return [["send", e] for e in case["events"]]


def run_sync(case):
    log = BoundedLog()
    out = []
    machine = create_machine(copy.deepcopy(case["machine"]), logic=mklogic(log, case["guards"]))
    it = SyncInterpreter(machine)
    it.use(RecorderPlugin(log))
    subs = _subscribe(it)
    cnt = _COUNTER
    cnt.reset()
    ss = _SelfSends(it, False)
    try:
        it.start()
        out.append(observe(it, log, cuts=cnt.cuts))
    except XStateMachineError as x:
        out.append(observe(it, log, type(x).__name__, cuts=cnt.cuts))
    out[-1].update(chain_cuts=cnt.chain_cuts, self_sends=ss.take(), SUB=_take(subs))
    for op in case_ops(case):
        log.clear()
        cnt.reset()
        can, mutated = _probe_can(it, op, log)
        log.clear()
        ss.take()
        ss.n -= 1                # the harness's own send below
        try:
            it.send(_mk_event(op))
            out.append(observe(it, log, cuts=cnt.cuts))
        except XStateMachineError as x:
            out.append(observe(it, log, type(x).__name__, cuts=cnt.cuts))
        out[-1]["can"] = can
        out[-1]["can_mutated"] = mutated
        out[-1].update(chain_cuts=cnt.chain_cuts, self_sends=max(0, ss.take()), SUB=_take(subs))
    it.stop()
    return out


class VirtualLoop(asyncio.SelectorEventLoop):
    """asyncio loop on a virtual clock: when nothing is ready, time jumps to the next timer."""

    def __init__(self):
        super().__init__(selectors.SelectSelector())
        self._vnow = 0.0

    def time(self):
        return self._vnow

    def _run_once(self):
        while self._scheduled and self._scheduled[0]._cancelled:
            h = heapq.heappop(self._scheduled)
            h._scheduled = False
        if not self._ready and self._scheduled:
            when = self._scheduled[0]._when
            if when > self._vnow:
                self._vnow = when
        super()._run_once()


async def _drain(it):
    for _ in range(20000):
        if _HUNG[0]:
            raise Hang()
        await asyncio.sleep(0)
        if not it._processing and (it._event_queue.empty() or it.status != "running"):
            return
    raise Hang()


class _LogCounter(logging.Handler):
    """counts the library's own error logs: failed events (async) and maxIterations cuts (both engines)"""

    def __init__(self):
        super().__init__(level=logging.ERROR)
        self.n = 0
        self.cuts = 0
        self.chain_cuts = 0     # the queue / raise-chain bound (not the always-settling bound)

    def emit(self, record):
        try:
            msg = record.getMessage()
        except Exception:
            return
        if "Error processing event" in msg:
            self.n += 1
        if "Exceeded" in msg:
            self.cuts += 1
            if "chained self-raised events" in msg or "queued events in a single macrostep" in msg:
                self.chain_cuts += 1

    def reset(self):
        self.n = 0
        self.cuts = 0
        self.chain_cuts = 0


_COUNTER = _LogCounter()
_LIBLOG = logging.getLogger("xstate_statemachine")
_LIBLOG.addHandler(_COUNTER)
_LIBLOG.propagate = False


async def _run_async(case):
    log = BoundedLog()
    out = []
    machine = create_machine(copy.deepcopy(case["machine"]), logic=mklogic(log, case["guards"]))
    it = Interpreter(machine)
    it.use(RecorderPlugin(log))
    subs = _subscribe(it)
    cnt = _COUNTER
    cnt.reset()
    ss = _SelfSends(it, True)
    try:
        await it.start()
        await _drain(it)
        out.append(observe(it, log, nerr=cnt.n, cuts=cnt.cuts))
        out[-1].update(chain_cuts=cnt.chain_cuts, self_sends=ss.take(), SUB=_take(subs))
    except XStateMachineError as x:
        out.append(observe(it, log, type(x).__name__))
        return out
    for op in case_ops(case):
        log.clear()
        cnt.reset()
        can, mutated = _probe_can(it, op, log)
        log.clear()
        ss.take()
        ss.n -= 1            # the harness's own send below
        await it.send(_mk_event(op))
        await _drain(it)
        out.append(observe(it, log, nerr=cnt.n, cuts=cnt.cuts))
        out[-1]["can"] = can
        out[-1]["can_mutated"] = mutated
        out[-1].update(chain_cuts=cnt.chain_cuts, self_sends=max(0, ss.take()), SUB=_take(subs))
    await it.stop()
    return out


def run_async(case):
    loop = VirtualLoop()
    loop.set_exception_handler(lambda _l, _c: None)
    asyncio.set_event_loop(loop)
    try:
        return loop.run_until_complete(_run_async(case))
    finally:
        try:
            for t in asyncio.all_tasks(loop):
                t.cancel()
            loop.run_until_complete(asyncio.sleep(0))
        except BaseException:
            pass
        loop.close()
        asyncio.set_event_loop(None)


RUNNERS = {"sync": run_sync, "async": run_async}


def run_guarded(flavor, case, timeout=10):
    """run one case under a SIGALRM watchdog; returns ('ok', obs) | ('hang', None) | ('crash', repr)"""
    try:
        return _run_guarded(flavor, case, timeout)
    except Hang:
        # the repeating watchdog fired once more while the run was unwinding (inside an `except`/`finally`
        # of _run_guarded): that is still a hang, not a crash of the harness
        for _ in range(10):
            try:
                signal.setitimer(signal.ITIMER_REAL, 0)
                break
            except Hang:
                continue
        return ("hang", None)


def _run_guarded(flavor, case, timeout=10):
    import threading
    _THREAD_BASE[0], _THREAD_BASE[1] = threading.active_count(), time.time()
    old = signal.signal(signal.SIGALRM, _alarm)
    _HUNG[0] = False
    # repeating timer: an exception raised inside a weakref/GC callback is swallowed by CPython,
    # so keep firing until the run really unwinds
    signal.setitimer(signal.ITIMER_REAL, timeout, 0.2)
    try:
        r = RUNNERS[flavor](case)
        signal.setitimer(signal.ITIMER_REAL, 0)
        if _HUNG[0]:
            return ("hang", None)
        return ("ok", r)
    except Hang:
        signal.setitimer(signal.ITIMER_REAL, 0)
        return ("hang", None)
    except RecursionError as x:
        signal.setitimer(signal.ITIMER_REAL, 0)
        return ("crash", "RecursionError")
    except Exception as x:  # a raw (non-library) exception escaping the public API
        signal.setitimer(signal.ITIMER_REAL, 0)
        if _HUNG[0]:
            return ("hang", None)
        return ("crash", f"RAW:{type(x).__name__}: {x}"[:300])
    finally:
        signal.setitimer(signal.ITIMER_REAL, 0)
        signal.signal(signal.SIGALRM, old)
