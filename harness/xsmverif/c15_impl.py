"""C15 — runners that drive REAL actor hierarchies (both engines) on an op sequence.

A case (JSON):
  kinds   : ["k1","k2",...]                  service keys (child machine kinds); the root machine is "r"
  invoke  : {"r": "k1", "k1": null, ...}     machine-`invoke` declared by the state `inv` of each machine
  cmds    : {"C0": [action,...], ...}        action lists (DSL below); every machine declares every command
  ops     : [["cmd", actorId, name] | ["adv", ms] | ["stop", actorId] | ["fin", actorId] | ["fail", actorId]]
            "fin" / "fail" (cases with `completion: true`): the actor's machine reaches its top-level FINAL state (status
            `done`) / fails (an invoked service without onError raises: status `error`) BY ITSELF - nobody stops it - and the
            clock advances by POLL_MS, so that whoever watches the child (the async managing task of an `invoke`, the sync
            watcher thread of a non-blocking spawn) has reacted when the op is observed
  eager   : bool                             sync engine only: thread schedule (see VThreads below)

Action DSL:  ["spawnChild", key, eid|None, sysId|None] ["spawn", key, eid|None, sysId|None, blocking]
             ["sendTo", target, n, delay|None, sendId|None] ["sendParent", n, delay|None, sendId|None]
             ["forwardTo", target] ["escalate"] ["cancel", sendId] ["stopChild", target]
             ["raise", n, delay, sendId|None]   (delayed self-send; monitor only: the actor model has no `raise`)
Messages are the event types "M<n>"; a command is an event {"type": name, "to": <harness uid of the interpreter
object>, "k": serial} guarded by `forMe`, so a FORWARDED command is inert too (also when it reaches another object
carrying the same id string, or comes back).  A message is only recorded, unless the case carries
  react       : {kind: {"M<n>": [action,...]}}   the machine of that kind REACTS to the message with the action list
  react_limit : int                            every actor reacts at most that many times (guard `reactOk`)
(c15react.py): then the life of a send id runs THROUGH deliveries (a send re-armed from inside the delivery it caused).
Every send, cancel, receipt, reaction and stop notification takes a number from one global sequence (`World.seq`) at
the moment it happens; the rules about cancel / supersede / stop are stated on that order and on the virtual clock.

Observation uses the public API only: every machine's root entry action `hello(interp, ...)` registers
the interpreter object and installs a Recorder plugin on it (`on_event_received`, `on_interpreter_stop`)
before the interpreter can process anything; `uuid.uuid4` of the two engine modules is replaced by a
counter in the harness process (generated ids canonicalised by first occurrence, DESIGN 4.2); warnings
of the library logger are captured per op.
"""
from __future__ import annotations
import asyncio, copy, itertools, logging, signal, threading as _rt

from . import impl  # noqa: F501  (installs the library log counter, VirtualLoop, watchdog helpers)
from xstate_statemachine import create_machine, SyncInterpreter, Interpreter, MachineLogic
from xstate_statemachine.plugins import PluginBase
import xstate_statemachine.interpreter as _ai
import xstate_statemachine.sync_interpreter as _si

ROOT = "r"
POLL_MS = 10          # >= the poll interval of both watchers (async `_ACTOR_POLL_INTERVAL` 5 ms, sync watcher thread 10 ms)
FINISHED = ("done", "error")


# ------------------------------------------------------------------------------------------ uuid shim
class _Uuid:
    def __init__(self):
        self.n = 0

    def uuid4(self):
        self.n += 1
        return f"u{self.n}"


# ------------------------------------------------------------------------------------------ warnings
class _Warn(logging.Handler):
    """collects WARNING/ERROR records of the library that the property speaks about (dropped sends)"""

    KEYS = (("could not resolve", "unresolved"), ("is ambiguous", "ambiguous"), ("no parent actor", "noparent"),
            ("Cannot send event", "notrunning"), ("dropping event", "notrunning"), ("already registered", "sysid-replaced"),
            ("escalate() with no parent", "noparent"))

    def __init__(self):
        super().__init__(level=logging.WARNING)
        self.items = []

    def emit(self, record):
        try:
            msg = record.getMessage()
        except Exception:
            return
        for k, tag in self.KEYS:
            if k in msg:
                self.items.append(tag)
                return


# ------------------------------------------------------------------------------------------ recorder + monitor
class World:
    """everything the harness knows about one run; also the property monitor (independent of the Lean model:
    it looks at the live interpreter objects through public attributes at the moment an action runs)"""

    def __init__(self, flavor):
        self.flavor = flavor
        self.objs = []          # interpreter objects in hello order (index = harness uid)
        self.uid = {}           # id(obj) -> uid
        self.logs = []          # uid -> list of (event type, serial)
        self.stops = {}         # uid -> (op index, time) of the FIRST stop notification
        self.after_stop = []    # (actor id, event type) received after the stop notification
        self.root = None
        self.op = 0             # index of the harness operation being executed (0 = start)
        self.clock = lambda: 0
        self.serial = 0
        self.attempts = []      # sends / forwards / stopChilds observed at the moment they are issued
        self.last_attempt = {}  # sender uid -> attempt awaiting its event callable
        self.pending = []       # delayed sends not yet due
        self.cancels = []       # {"seq", "time", "sender", "sid", "op"}: every `cancel` at the moment it is executed
        self.must = {}          # (uid, serial) -> count that MUST have been received by the end of the op
        self.may = {}           # (uid, serial) -> count that MAY have been received (recipient stopped meanwhile)
        self.problems = []
        self.harness_stopped = set()
        self.origin = {}        # id(obj) -> how it was first seen orphaned
        self.esc_seen = {}      # (parent uid, label) -> escalate events seen so far
        self.lazy_victims = set()   # children stopped (by stopChild / a parent's stop) before their thread had started them
        self.action_errors = []
        self.expected_warns = []
        self.seq = 0            # one global order of sends, cancels, receipts, reactions and stop notifications
        self.rlog = []          # receipts: {"u", "ser", "seq", "time"}
        self.stop_seq = {}      # uid -> seq of the FIRST stop notification
        self.reacts = []        # reactions run: {"op", "time", "seq", "actor", "kind", "msg"}
        self.static_warns = []  # warnings a reaction is known to cause without passing an event callable (sendParent at the root)
        self.opt_warns = []     # warnings that may or may not be logged (same-instant races)
        self.finished = {}      # uid -> (op index, time, seq, "done"|"error"): the machine completed / failed by itself

    # ---- bookkeeping
    def next_serial(self):
        self.serial += 1
        return self.serial

    def next_seq(self):
        self.seq += 1
        return self.seq

    def received_before(self, ser, seq):
        """was the event with serial `ser` already processed by somebody when the global order stood at `seq`?"""
        return ser is not None and any(r["ser"] == ser and r["seq"] < seq for r in self.rlog)

    def problem(self, kind, detail, **kw):
        d = {"kind": kind, "step": self.op, "detail": detail}
        d.update(kw)
        if "actor_obj" in d:
            o = d.pop("actor_obj")
            d["stopped_before_start"] = id(o) in self.lazy_victims
            d["stops_in_op"] = [_att_view(a) for a in self.attempts if a["op"] == self.op and a["kind"] == "stopChild"]
            # how an actor (or an actor above it) became an orphan explains what is later observed about it
            for q in [o] + _ancestors(o):
                first = self.origin.get(id(q))
                if first is not None:
                    d["stopped_before_start"] = d["stopped_before_start"] or first["stopped_before_start"]
                    d["id_reused"] = bool(d.get("id_reused")) or bool(first.get("id_reused"))
                    d["stops_in_op"] = d["stops_in_op"] + [a for a in first["stops_in_op"] if a not in d["stops_in_op"]]
            # an actor above it FINISHED by itself (status done / error) and was never stopped although it is no longer
            # (or its stopped parent never was) in a position to be: nothing can stop what lives below it
            fa = _finished_unstopped_ancestor(o)
            d["finished_unstopped_ancestor"] = fa.id if fa is not None else None
            if kind in ("orphan", "spawned-child-not-in-children-map") and id(o) not in self.origin:
                self.origin[id(o)] = {k: d.get(k) for k in ("stopped_before_start", "id_reused", "stops_in_op")}
        self.problems.append(d)

    def uid_of(self, obj):
        return self.uid.get(id(obj))

    def subtree(self, obj):
        out, todo = [], [obj]
        while todo:
            o = todo.pop()
            if any(o is x for x in out):
                continue
            out.append(o)
            todo.extend(o._actors.values())
        return out

    # ---- the documented addressing rules, written independently of `_resolve_actor_target`
    def expect_target(self, sender, spec):
        """('actor', obj, flags) | ('none', None, flags) | ('ambiguous', None, flags) | ('stale', obj, flags)
        order: systemId > exact child id > unique match on the child's OWN id segments (those after the parent's
        id) > unique match on the service key the child was spawned from > 'parent'."""
        flags = {}
        if not isinstance(spec, str):
            return ("none", None, flags)
        reg = sender.system.get_all()
        if spec in reg:
            tgt = reg[spec]
            if tgt.status == "stopped":
                flags["stale_registry"] = True
                return ("stale", tgt, flags)
            return ("actor", tgt, flags)
        kids = list(sender._actors.items())
        for cid, c in kids:
            if cid == spec:
                return ("actor", c, flags)
        own = [c for cid, c in kids if cid.startswith(sender.id + ":") and spec in cid[len(sender.id) + 1:].split(":")]
        if spec in sender.id.split(":")[1:]:
            flags["spec_is_own_segment"] = True      # the library also tests the parent's own segments
        if len(own) == 1:
            return ("actor", own[0], flags)
        if len(own) > 1:
            flags["stage"] = "segment"
            return ("ambiguous", None, flags)
        src = [c for cid, c in kids if c.machine.id == spec]
        if len(src) == 1:
            return ("actor", src[0], flags)
        if len(src) > 1:
            flags["stage"] = "source"
            return ("ambiguous", None, flags)
        if spec in ("parent", "#parent") and sender.parent is not None:
            return ("actor", sender.parent, flags)
        return ("none", None, flags)

    def new_attempt(self, sender, kind, spec, delay=None, sid=None, target=None):
        if target is None:
            ek, eobj, flags = self.expect_target(sender, spec)
        else:
            ek, eobj, flags = ("actor", target, {}) if target is not False else ("none", None, {})
        att = {"n": len(self.attempts), "seq": self.next_seq(), "op": self.op, "time": self.clock(), "sender": self.uid_of(sender), "kind": kind,
               "spec": spec, "expect": ek, "target": self.uid_of(eobj) if eobj is not None else None, "tobj": eobj,
               "flags": flags, "delay": delay or 0, "sid": sid or None, "serial": None,
               "target_status": eobj.status if eobj is not None else None}
        if kind == "stopChild" and eobj is not None:
            att["subtree"] = self.subtree(eobj)
            att["sub_status"] = [o.status for o in att["subtree"]]
            att["is_own_child"] = any(c is eobj for c in sender._actors.values())
        self.attempts.append(att)
        self.last_attempt[att["sender"]] = att
        return att


class RecPlugin(PluginBase):
    def __init__(self, world, obj):
        self.w = world
        self.u = world.uid[id(obj)]

    def on_event_received(self, interpreter, event):
        t = event.type
        pl = getattr(event, "payload", None) or {}
        k = pl.get("k") if isinstance(pl, dict) else None
        if t.startswith("xstate.error.actor."):
            t = "ESC<" + t[len("xstate.error.actor."):] + ">"
        self.w.logs[self.u].append((t, k))
        self.w.rlog.append({"u": self.u, "ser": k, "seq": self.w.next_seq(), "time": self.w.clock()})
        if self.u in self.w.stops:
            self.w.after_stop.append((interpreter.id, t))

    def on_interpreter_stop(self, interpreter):
        self.w.stops.setdefault(self.u, (self.w.op, self.w.clock()))
        self.w.stop_seq.setdefault(self.u, self.w.next_seq())

    def on_done(self, interpreter, output):
        self.w.finished.setdefault(self.u, (self.w.op, self.w.clock(), self.w.next_seq(), "done"))

    def on_error(self, interpreter, error):
        self.w.finished.setdefault(self.u, (self.w.op, self.w.clock(), self.w.next_seq(), "error"))

    def on_action_error(self, interpreter, action, error):
        self.w.action_errors.append((interpreter.id, action.type, f"{type(error).__name__}: {error}"[:200]))


def make_logic(world, case=None):
    react = (case or {}).get("react") or {}
    limit = int((case or {}).get("react_limit", 8))

    def react_ok(ctx, ev):
        # every actor reacts a bounded number of times: a re-arming heartbeat ends by itself
        return ctx.get("nreact", 0) < limit

    def note_react(interp, ctx, ev, ad):
        ctx["nreact"] = ctx.get("nreact", 0) + 1
        acts = (react.get(interp.machine.id) or {}).get(ev.type) or []
        world.reacts.append({"op": world.op, "time": world.clock(), "seq": world.next_seq(), "actor": interp.id,
                             "uid": world.uid_of(interp), "kind": interp.machine.id, "msg": ev.type})
        if interp.parent is None:
            # sendParent / escalate at the root never reach their event callable: the warning is expected statically
            world.static_warns.extend("noparent" for a in acts if a[0] in ("sendParent", "escalate"))

    def note_cancel(interp, ctx, ev, ad):
        # runs immediately before the `cancel` built-in of the same action list: the moment the cancel is executed
        world.cancels.append({"seq": world.next_seq(), "time": world.clock(), "sender": world.uid_of(interp),
                              "sid": (ad.params or {}).get("sid"), "op": world.op})

    def hello(interp, ctx, ev, ad):
        if id(interp) in world.uid:
            return
        world.uid[id(interp)] = len(world.objs)
        world.objs.append(interp)
        world.logs.append([])
        ctx["me"] = interp.id
        ctx["uid"] = world.uid[id(interp)]
        interp.use(RecPlugin(world, interp))

    def for_me(ctx, ev):
        # a command runs once: a copy that comes back (forwardTo resolving to the sender itself) is inert
        pl = getattr(ev, "payload", None) or {}
        return pl.get("to") == ctx.get("uid") and pl.get("k") not in ctx.get("seen", ())

    def mark(interp, ctx, ev, ad):
        ctx.setdefault("seen", []).append((getattr(ev, "payload", None) or {}).get("k"))

    lg = MachineLogic()
    lg.actions = {"hello": hello, "mark": mark, "noteReact": note_react, "noteCancel": note_cancel}
    lg.guards = {"forMe": for_me, "reactOk": react_ok}
    lg.services = {}
    return lg


def _sender(world, args):
    return world.objs[args["context"]["uid"]]


def _action(a, world, idx=0):
    """action DSL -> action definition; the `to` / `event` / `id` params are callables (a documented form)
    so that the monitor sees every send at the moment it is issued"""
    k = a[0]
    if k == "spawnChild":
        return {"type": "spawnChild", "params": {"src": a[1], "id": a[2], "systemId": a[3]}}
    if k == "spawn":
        typ = ("spawn_blocking_" if a[4] else "spawn_") + a[1]
        return {"type": typ, "params": {"id": a[2], "systemId": a[3]}}
    if k == "sendTo":
        def to_fn(args, _a=a):
            world.new_attempt(_sender(world, args), "sendTo", _a[1], _a[3], _a[4])["aidx"] = idx
            return _a[1]

        def ev_fn(args, _a=a):
            att = world.last_attempt.get(args["context"]["uid"])
            ser = world.next_serial()
            if att is not None and att["serial"] is None:
                att["serial"] = ser
            return {"type": f"M{_a[2]}", "k": ser}
        return {"type": "sendTo", "params": {"to": to_fn, "event": ev_fn, "delay": a[3], "id": a[4]}}
    if k == "sendParent":
        def ev_fn2(args, _a=a):
            snd = _sender(world, args)
            att = world.new_attempt(snd, "sendParent", "<parent>", _a[2], _a[3], target=snd.parent if snd.parent is not None else False)
            att["serial"] = world.next_serial()
            att["aidx"] = idx
            return {"type": f"M{_a[1]}", "k": att["serial"]}
        return {"type": "sendParent", "params": {"event": ev_fn2, "delay": a[2], "id": a[3]}}
    if k == "raise":
        def ev_fn4(args, _a=a):
            snd = _sender(world, args)
            att = world.new_attempt(snd, "raise", "<self>", _a[2], _a[3], target=snd)
            att["serial"] = world.next_serial()
            att["aidx"] = idx
            return {"type": f"M{_a[1]}", "k": att["serial"]}
        return {"type": "raise", "params": {"event": ev_fn4, "delay": a[2], "id": a[3]}}
    if k == "forwardTo":
        def to_fn3(args, _a=a):
            att = world.new_attempt(_sender(world, args), "forwardTo", _a[1])
            att["serial"] = (getattr(args["event"], "payload", None) or {}).get("k")
            return _a[1]
        return {"type": "forwardTo", "params": {"to": to_fn3}}
    if k == "escalate":
        return {"type": "escalate", "params": {"error": "boom"}}
    if k == "cancel":
        return {"type": "cancel", "params": {"sendId": a[1]}}
    if k == "stopChild":
        def id_fn(args, _a=a):
            world.new_attempt(_sender(world, args), "stopChild", _a[1])
            return _a[1]
        return {"type": "stopChild", "params": {"id": id_fn}}
    raise ValueError(a)


def _actions(acts, world):
    """an action list of the DSL -> action definitions; every `cancel` is preceded by the user action that records it"""
    out = []
    for j, a in enumerate(acts):
        if a[0] == "cancel":
            out.append({"type": "noteCancel", "params": {"sid": a[1]}})
        out.append(_action(a, world, j))
    return out


def machine_config(mid, case, world):
    on = {name: {"guard": "forMe", "actions": ["mark"] + _actions(acts, world)} for name, acts in case["cmds"].items()}
    for msg, acts in ((case.get("react") or {}).get(mid) or {}).items():
        on[msg] = {"guard": "reactOk", "actions": ["noteReact"] + _actions(acts, world)}
    cfg = {"id": mid, "initial": "idle", "entry": ["hello"], "on": on,
           "states": {"idle": {"on": {"GOINV": {"guard": "forMe", "target": "inv"}}},
                      "inv": {"on": {"LEAVE": {"guard": "forMe", "target": "idle"}}}}}
    src = (case.get("invoke") or {}).get(mid)
    if src:
        cfg["states"]["inv"]["invoke"] = {"src": src, "id": "iv"}
    if case.get("completion"):
        # the machine can END BY ITSELF: FIN -> its top-level final state (status `done`), FAIL -> a state whose invoked
        # service raises with no onError declared (status `error`)
        for st in ("idle", "inv"):
            cfg["states"][st]["on"]["FIN"] = {"guard": "forMe", "target": "fin"}
            cfg["states"][st]["on"]["FAIL"] = {"guard": "forMe", "target": "bad"}
        cfg["states"]["fin"] = {"type": "final"}
        cfg["states"]["bad"] = {"invoke": {"src": "boom", "id": "sb"}}
    return cfg


def build(case, world):
    lg = make_logic(world, case)
    nodes = {}

    def boom(interp, ctx, ev):
        raise RuntimeError("boom")
    lg.services["boom"] = boom
    for k in case["kinds"]:
        lg.services[k] = None
    for k in case["kinds"]:
        nodes[k] = create_machine(machine_config(k, case, world), logic=lg)
    for k in case["kinds"]:
        lg.services[k] = nodes[k]
    return create_machine(machine_config(ROOT, case, world), logic=lg)


# ------------------------------------------------------------------------------------------ observation
def live_tree(root):
    """DFS over the children maps: (depth, interpreter) in insertion order"""
    out, seen = [], set()

    def walk(it, d):
        if id(it) in seen:
            return
        seen.add(id(it))
        out.append((d, it))
        for c in list(it._actors.values()):
            walk(c, d + 1)
    walk(root, 0)
    return out


def find_actor(root, aid):
    for _d, it in live_tree(root):
        if it.id == aid:
            return it
    return None


def _st(s):
    return "running" if s == "running" else ("uninit" if s == "uninitialized" else "stopped" if s == "stopped" else s)


def observe(world, warns):
    root = world.root
    tree = live_tree(root)
    reach = {id(it) for _d, it in tree}

    def log_of(it):
        u = world.uid.get(id(it))
        return [t for t, _k in world.logs[u]] if u is not None else []
    return {
        "tree": [[d, it.id, _st(it.status), log_of(it)] for d, it in tree],
        "reg": sorted([k, v.id, _st(v.status)] for k, v in root.system.get_all().items()),
        "det": sorted([it.id, _st(it.status), log_of(it)] for it in world.objs if id(it) not in reach),
        "warn": sorted(warns),
        "afterstop": sorted(map(list, world.after_stop)),
    }


# ------------------------------------------------------------------------------------------ the monitor proper
SPAWN_KINDS = ("spawnChild", "spawn")


def pre_op(world, case, op):
    """static expectations of a harness operation, computed BEFORE it runs (on the live objects)"""
    info = {"op": op, "t0": world.clock(), "n_objs": len(world.objs), "n_att": len(world.attempts), "tgt": None, "subtree": None,
            "expect_new": [], "escalates": 0, "warn": []}
    if op[0] in ("cmd", "stop", "fin", "fail"):
        tgt = find_actor(world.root, op[1])
        info["tgt"] = tgt
        if tgt is None:
            return info
        if op[0] == "stop":
            info["subtree"] = world.subtree(tgt)
            return info
        if tgt.status != "running":
            info["warn"].append("notrunning")
            info["tgt_dead"] = True
            return info
        ser = world.next_serial()
        info["serial"] = ser
        world.must[(world.uid_of(tgt), ser)] = 1
        if op[0] in ("fin", "fail"):
            return info
        if op[2] == "GOINV":
            src = (case.get("invoke") or {}).get(tgt.machine.id)
            in_inv = any(n.id.endswith(".inv") for n in tgt._active_state_nodes)
            if src and not in_inv:
                info["expect_new"].append(("invoke", src, None, None))
        elif op[2] != "LEAVE":
            for aidx, a in enumerate(case["cmds"].get(op[2], [])):
                if a[0] in SPAWN_KINDS:
                    key = a[1][len("blocking_"):] if a[0] == "spawnChild" and a[1].startswith("blocking_") else a[1]
                    info["expect_new"].append((a[0], key, a[2] or None, a[3] or None))
                elif a[0] == "escalate":
                    info["escalates"] += 1
    return info


def _count(world, u, ser):
    return sum(1 for _t, k in world.logs[u] if k == ser)


def post_op(world, case, info, warns):
    """evaluate the property on the real objects after the operation has settled"""
    op = info["op"]
    now = world.clock()
    objs = world.objs
    new_atts = world.attempts[info["n_att"]:]
    exp_warn = list(info["warn"])
    tgt = info["tgt"]
    # ---- sends issued during this op
    for att in new_atts:
        k = att["kind"]
        if k == "stopChild":
            if att["expect"] in ("none",):
                exp_warn.append("unresolved")
            elif att["expect"] == "ambiguous":
                exp_warn += ["ambiguous", "unresolved"]
            continue
        if att["expect"] == "none":
            exp_warn.append("unresolved" if k != "sendParent" else "noparent")
            att["forbid"] = True
            continue
        if att["expect"] == "ambiguous":
            exp_warn += ["ambiguous", "unresolved"]
            att["forbid"] = True
            continue
        if att["expect"] == "stale":
            att["forbid"] = True
            if att["delay"]:
                att["due"] = att["time"] + att["delay"]
                att["stale"] = True
                world.pending.append(att)
            else:
                exp_warn.append("notrunning")
            continue
        if att["delay"]:
            att["due"] = att["time"] + att["delay"]
            world.pending.append(att)
            continue
        _expect_delivery(world, att, exp_warn, now)
    for att in new_atts:
        if att["delay"] and att["kind"] != "stopChild":
            att.setdefault("due", att["time"] + att["delay"])
    # sendParent at the root never reaches its event callable: the warning is expected statically
    if op[0] == "cmd" and tgt is not None and not info.get("tgt_dead") and op[2] not in ("GOINV", "LEAVE"):
        for a in case["cmds"].get(op[2], []):
            if a[0] in ("sendParent", "escalate") and tgt.parent is None:
                exp_warn.append("noparent")
        if info["escalates"] and tgt.parent is not None:
            pu = world.uid_of(tgt.parent)
            label = "ESC<" + tgt.id + ">"
            if pu is not None:
                info["esc"] = (pu, label, info["escalates"])
    # ---- delayed sends that became due during this op
    still = []
    for att in world.pending:
        if att["due"] > now or (att["due"] == now and op[0] not in ("adv", "fin", "fail")):
            still.append(att)
            continue
        su = att["sender"]
        # what can take a pending send away: a `cancel` of its id executed by its sender, a later delayed send of the same
        # sender under the same id (only if that one is itself addressed by the documented rules: a send that is dropped -
        # unresolved / ambiguous - schedules nothing and supersedes nothing), the stop of its sender.  Each is an event in
        # the global order: it acts on the send iff it comes after the send was issued and BEFORE the send's due time.  At the
        # due instant itself the send is out of reach once it has been delivered (a cancel / re-arm under the same id
        # executed INSIDE the delivery it caused acts on nothing, resp. only on itself); if it has not been delivered yet,
        # the timer and the killer race and either outcome is legal.
        killers = []
        if att["sid"] is not None:
            killers += [("cancelled", c["seq"], c["time"]) for c in world.cancels
                        if c["sender"] == su and c["sid"] == att["sid"] and c["seq"] > att["seq"]]
            killers += [("superseded", b["seq"], b["time"]) for b in world.attempts
                        if b is not att and b["sender"] == su and b["sid"] == att["sid"] and b["delay"] and b["seq"] > att["seq"]
                        and b["kind"] != "stopChild" and b["expect"] in ("actor", "stale")]
        if su in world.stops:
            killers.append(("sender-stopped", world.stop_seq.get(su, 0), world.stops[su][1]))
        why = next((k for k, _q, t in killers if t < att["due"]), None)
        race = why is None and any(t == att["due"] and not world.received_before(att["serial"], q) for _k, q, t in killers)
        if why:
            att["forbid"] = True
            att["why"] = why
        elif race:
            att["race"] = True
            if att["target"] is not None and att["serial"] is not None:
                world.may[(att["target"], att["serial"])] = world.may.get((att["target"], att["serial"]), 0) + 1
            world.opt_warns.append("notrunning")
        elif att.get("stale"):
            exp_warn.append("notrunning")
        else:
            _expect_delivery(world, att, exp_warn, now, at_due=True)
    world.pending = still
    # ---- receipts: nothing forbidden, nothing twice, nothing missing
    for att in world.attempts:
        ser = att["serial"]
        if ser is None or att["kind"] == "stopChild":
            continue
        if att.get("forbid") and att["kind"] != "forwardTo":
            got = [(u, _count(world, u, ser)) for u in range(len(objs)) if _count(world, u, ser)]
            if got and not att.get("reported"):
                att["reported"] = True
                world.problem("delivered-but-should-not", f"{att['kind']}({att['spec']!r}) from {objs[att['sender']].id} must be dropped "
                              f"({att['expect']}{'/' + att['why'] if att.get('why') else ''}) but was received by {[objs[u].id for u, _ in got]}",
                              att=_att_view(att), receivers=[objs[u].id for u, _ in got])
    for (u, ser), cnt in list(world.must.items()):
        got = _count(world, u, ser)
        if got != cnt:
            who = next((a for a in world.attempts if a["serial"] == ser and a["kind"] != "stopChild" and a["target"] == u), None)
            world.problem("lost" if got < cnt else "duplicated", f"{objs[u].id} received serial {ser} {got}x, expected {cnt}x"
                          + (f" ({who['kind']}({who['spec']!r}) from {objs[who['sender']].id})" if who else " (harness command)"),
                          att=_att_view(who) if who else None, recipient=objs[u].id, recipient_status_at_send=who["target_status"] if who else None,
                          attempts=[_att_view(a) for a in world.attempts if a["serial"] == ser and a is not who and a["kind"] != "stopChild"])
            world.must[(u, ser)] = got          # report once
    allowed = {}
    for (u, ser), cnt in world.must.items():
        allowed[(u, ser)] = allowed.get((u, ser), 0) + cnt
    for (u, ser), cnt in world.may.items():
        allowed[(u, ser)] = allowed.get((u, ser), 0) + cnt
    for u in range(len(objs)):
        seen = {}
        for t, ser in world.logs[u]:
            if ser is None:
                continue
            seen[ser] = seen.get(ser, 0) + 1
        for ser, c in seen.items():
            if c > allowed.get((u, ser), 0):
                cands = [a for a in world.attempts if a["serial"] == ser and a["kind"] != "stopChild"]
                who = next((a for a in cands if a["flags"].get("stage") == "source" or a["flags"].get("spec_is_own_segment")),
                           next((a for a in cands if a["target"] != u or a.get("forbid")), cands[0] if cands else None))
                if who is not None and who.get("reported"):
                    continue
                if who is not None:
                    who["reported"] = True
                world.problem("misdelivered", f"{objs[u].id} received serial {ser} {c}x but is not its addressee"
                              + (f": {who['kind']}({who['spec']!r}) from {objs[who['sender']].id} expected {who['expect']}"
                                 f"{' ' + objs[who['target']].id if who['target'] is not None else ''}" if who else ""),
                              att=_att_view(who) if who else None, recipient=objs[u].id,
                              attempts=[_att_view(a) for a in cands if a is not who])
                world.may[(u, ser)] = world.may.get((u, ser), 0) + c
    if info.get("esc"):
        # escalate carries no serial: count the parent's receipts of this sender's error event
        pu, label, n = info["esc"]
        got = sum(1 for t, _k in world.logs[pu] if t == label)
        prev = world.esc_seen.get((pu, label), 0)
        if got - prev != n and world.objs[pu].status == "running":
            world.problem("escalate-count", f"{n} escalate action(s) of {tgt.id}: its parent processed {got - prev} error event(s)")
        world.esc_seen[(pu, label)] = got
    for att in new_atts:
        if att["kind"] == "stopChild" and att.get("subtree"):
            for j, o in enumerate(att["subtree"]):
                if att["sub_status"][j] == "uninitialized":
                    world.lazy_victims.add(id(o))
    # ---- spawn: exactly one started, registered child per spawn action
    new_objs = objs[info["n_objs"]:]
    if tgt is not None and op[0] == "cmd" and not info.get("tgt_dead"):
        if len(new_objs) != len(info["expect_new"]):
            world.problem("spawn-count", f"{len(info['expect_new'])} spawn actions created {len(new_objs)} started actors",
                          expected=[list(map(str, e)) for e in info["expect_new"]], got=[o.id for o in new_objs])
        else:
            pool = list(new_objs)
            pairs = []
            for e in info["expect_new"]:
                how, key, eid, sid = e
                want = f"{tgt.id}:{eid}" if (eid and how != "invoke") else None
                if how == "invoke" and world.flavor == "sync":
                    want = f"{tgt.id}:iv"
                pick = None
                cands = []
                for o in pool:
                    ok_id = (o.id == want) if want else (o.id.startswith(f"{tgt.id}:{key}:") and len(o.id.split(":")) == len(tgt.id.split(":")) + 2)
                    if ok_id and o.parent is tgt and o.machine.id == key:
                        cands.append(o)
                if cands:
                    # generated ids are numbered in spawn order (the uuid shim), whatever the thread schedule
                    def _num(o):
                        last = o.id.rsplit(":", 1)[-1]
                        return int(last[1:]) if (not want and last[1:].isdigit()) else 0
                    pick = min(cands, key=_num) if not want else cands[0]
                if pick is None:
                    world.problem("spawn-identity", f"spawn {how}({key},{eid}) by {tgt.id}: no new actor with the expected id/machine among {[o.id for o in pool]}")
                    continue
                pool.remove(pick)
                pairs.append((e, pick))
            def _same_id_twice(e):
                return e[2] and sum(1 for e2 in info["expect_new"] if e2[2] == e[2]) > 1
            for (how, key, eid, sid), o in pairs:
                if _same_id_twice((how, key, eid, sid)):
                    continue        # which object answers to which spawn cannot be told apart by id; the orphan rules judge them
                stopped_here = world.uid_of(o) in world.stops
                if o.status != "running" and not stopped_here:
                    world.problem("spawn-not-started", f"{o.id} has status {o.status} after the spawning macrostep", actor=o.id, actor_obj=o)
                if o.status == "running":
                    if not any(c is o for c in tgt._actors.values()) and tgt.status == "running":
                        world.problem("spawned-child-not-in-children-map", f"{o.id} runs but {tgt.id}._actors does not hold it",
                                      actor=o.id, actor_obj=o, id_reused=_reused(world, o))
                    if sid:
                        reg = world.root.system.get_all()
                        idx = info["expect_new"].index((how, key, eid, sid))
                        later = [e for e in info["expect_new"][idx + 1:] if e[3] == sid]
                        if reg.get(sid) is not o and not later:
                            world.problem("spawn-not-registered", f"{o.id} was spawned with systemId {sid!r} but the registry maps it to "
                                          f"{reg[sid].id if sid in reg else None}", actor=o.id, actor_obj=o)
    # ---- supervision: stop targets and their subtrees
    victims = []
    for att in new_atts:
        if att["kind"] == "stopChild" and att["expect"] in ("actor", "stale") and att.get("subtree"):
            victims.append(("stopChild", att["tobj"], att["subtree"], att))
    if op[0] == "stop" and tgt is not None and info["subtree"]:
        victims.append(("stop", tgt, info["subtree"], None))
        world.harness_stopped.add(id(tgt))
    reg = world.root.system.get_all()
    for how, top, sub, att in victims:
        if att is not None and not att["is_own_child"]:
            world.harness_stopped.add(id(top))      # stopped through a systemId by an actor that is not its parent
        for j, o in enumerate(sub):
            if att is not None and att["sub_status"][j] == "uninitialized":
                world.lazy_victims.add(id(o))
                if o.status != "stopped":
                    world.problem("stop-missed-unstarted-child", f"{how} of {top.id}: {o.id} was not yet started when it was stopped; "
                                  f"it now has status {o.status}", actor=o.id, top=top.id)
                continue
            if o.status != "stopped":
                world.problem("subtree-not-stopped", f"{how} of {top.id}: descendant {o.id} has status {o.status}", actor=o.id, top=top.id,
                              att=_att_view(att))
    # ---- hygiene at every observation point
    for sid, o in reg.items():
        if o.status == "stopped":
            key = ("reg", sid, id(o))
            if key not in world.__dict__.setdefault("_seen", set()):
                world._seen.add(key)
                direct = any(how == "stopChild" and top is o for how, top, _s, _a in victims)
                world.problem("registry-keeps-stopped-actor", f"system.get_all()[{sid!r}] is the stopped actor {o.id}",
                              actor=o.id, system_id=sid, direct_stopchild_target=direct)
    for o in objs:
        if o.status != "running":
            continue
        for cid, c in o._actors.items():
            if c.status == "stopped" and id(c) not in world.harness_stopped and not _watched(world, c):
                key = ("kid", id(o), id(c))
                if key not in world.__dict__.setdefault("_seen", set()):
                    world._seen.add(key)
                    world.problem("children-map-keeps-stopped-actor", f"{o.id}._actors[{cid!r}] is stopped", actor=c.id, parent=o.id)
        p = o.parent
        if p is not None:
            if p.status == "stopped" or any(a.status == "stopped" for a in _ancestors(o)):
                key = ("zombie", id(o))
                if key not in world.__dict__.setdefault("_seen", set()):
                    world._seen.add(key)
                    world.problem("running-under-stopped-ancestor", f"{o.id} is running although an ancestor is stopped",
                                  actor=o.id, actor_obj=o, id_reused=_reused(world, o),
                                  never_in_map=not any(c is o for c in p._actors.values()))
            elif not any(c is o for c in p._actors.values()):
                key = ("orphan", id(o))
                if key not in world.__dict__.setdefault("_seen", set()):
                    world._seen.add(key)
                    world.problem("orphan", f"{o.id} is running but its parent {p.id} does not list it any more",
                                  actor=o.id, actor_obj=o, id_reused=_reused(world, o))
            else:
                # the same one or more levels up: an actor above `o` FINISHED by itself (done / error), was dropped from its
                # parent's children map and never stopped - no stop() of anybody reaches `o` any more
                fa = _finished_unstopped_ancestor(o)
                if fa is not None and fa.parent is not None and not any(c is fa for c in fa.parent._actors.values()):
                    key = ("dropped", id(o))
                    if key not in world.__dict__.setdefault("_seen", set()):
                        world._seen.add(key)
                        world.problem("running-under-dropped-finished-ancestor",
                                      f"{o.id} is running; its ancestor {fa.id} finished by itself (status {fa.status}), was removed from "
                                      f"{fa.parent.id}._actors and never stopped: no stop() can reach {o.id} any more",
                                      actor=o.id, actor_obj=o, ancestor=fa.id, ancestor_status=fa.status, id_reused=_reused(world, o))
    for (aid, t) in world.after_stop:
        key = ("late", aid, t)
        if key not in world.__dict__.setdefault("_seen", set()):
            world._seen.add(key)
            world.problem("received-after-stop", f"{aid} processed {t} after its stop notification", actor=aid, event=t)
    for e in world.action_errors:
        world.problem("action-error", f"built-in action failed: {e}")
    del world.action_errors[:]
    # ---- warnings
    got_w = sorted(w for w in warns if w in ("unresolved", "ambiguous", "noparent", "notrunning"))
    exp_warn += world.static_warns
    del world.static_warns[:]
    extra = list(got_w)
    for w in exp_warn:
        if w in extra:
            extra.remove(w)
    opt = list(world.opt_warns)
    del world.opt_warns[:]
    for w in list(extra):
        if w in opt:                    # a warning that a same-instant race may or may not produce
            opt.remove(w)
            extra.remove(w)
            exp_warn.append(w)
    if sorted(exp_warn) != got_w:
        world.problem("warnings", f"expected warnings {sorted(exp_warn)}, the library logged {got_w}",
                      expected=sorted(exp_warn), got=got_w,
                      attempts=[_att_view(a) for a in new_atts] +
                               [_att_view(a) for a in world.attempts[:info["n_att"]] if a["delay"] and info["t0"] < a.get("due", -1) <= now])


def _watched(world, c):
    """sync engine: a stopped child of a non-blocking spawn stays in the map until its watcher thread polls"""
    return world.flavor == "sync"


def _reused(world, o):
    """o, or an actor above it, shares its id with another interpreter object (an id was spawned twice)"""
    chain = [o] + _ancestors(o)
    return any(q is not a and q.id == a.id for a in chain for q in world.objs)


def _finished_unstopped_ancestor(o):
    """the nearest actor above `o` whose machine finished by itself (status done / error: `stop()` has never run on it,
    it would read `stopped`) and that nobody can stop any more: its parent does not list it, or is itself stopped"""
    for q in _ancestors(o):
        if q.status in FINISHED and q.parent is not None and (
                q.parent.status == "stopped" or not any(c is q for c in q.parent._actors.values())):
            return q
    return None


def _ancestors(o):
    out = []
    p = o.parent
    while p is not None and len(out) < 50:
        out.append(p)
        p = p.parent
    return out


def _att_view(att):
    if att is None:
        return None
    return {k: v for k, v in att.items() if k not in ("tobj", "subtree")}


def _expect_delivery(world, att, exp_warn, now, at_due=False):
    """an addressed, non-dropped send: the addressee must process it exactly once unless it is (being) stopped"""
    o = att["tobj"]
    u = att["target"]
    ser = att["serial"]
    if u is None:
        u = world.uid_of(o)        # an unstarted child says hello when its thread finally runs
        att["target"] = u
    if u is None or ser is None:
        return
    status_then = o.status if at_due else att["target_status"]
    if at_due:
        # the recipient left `running` when it was stopped OR when its machine finished by itself (done / error: `send`
        # refuses the event with the same warning), whichever came first
        gone = [t for t in ([world.stops[u][1]] if u in world.stops else []) + ([world.finished[u][1]] if u in world.finished else [])]
        stopped_before = bool(gone) and min(gone) < att["due"]
        stopped_at = bool(gone) and not stopped_before and min(gone) == att["due"]
        if stopped_before:
            exp_warn.append("notrunning")
            att["forbid"] = True
            att["why"] = "recipient-stopped"
            return
        if stopped_at:
            world.may[(u, ser)] = world.may.get((u, ser), 0) + 1
            world.opt_warns.append("notrunning")
            return
        world.must[(u, ser)] = world.must.get((u, ser), 0) + 1
        return
    if status_then == "stopped" or status_then in FINISHED:
        exp_warn.append("notrunning")
        att["forbid"] = True
        att["why"] = "recipient-stopped" if status_then == "stopped" else "recipient-finished"
        return
    if status_then == "uninitialized":
        # the property says a spawned child is started: the message must arrive (sync engine: it does not)
        world.must[(u, ser)] = world.must.get((u, ser), 0) + 1
        att["flags"]["recipient_unstarted"] = True
        return
    if (u in world.stops and world.stops[u][0] == world.op) or (u in world.finished and world.finished[u][0] == world.op):
        # addressee stopped (or finished) later in the same macrostep: its mailbox may be discarded
        world.may[(u, ser)] = world.may.get((u, ser), 0) + 1
        return
    world.must[(u, ser)] = world.must.get((u, ser), 0) + 1


def final_checks(world):
    """per (sender, recipient): immediate sends are processed in sending order"""
    by_serial = {a["serial"]: a for a in world.attempts if a["serial"] is not None and a["kind"] in ("sendTo", "sendParent") and not a["delay"]}
    for u, log in enumerate(world.logs):
        last = {}
        for t, ser in log:
            a = by_serial.get(ser)
            if a is None or a["target"] != u:       # (a forwarded copy of the event travels under the same serial)
                continue
            s = a["sender"]
            if s in last and last[s] > ser:
                world.problem("out-of-order", f"{world.objs[u].id} processed serial {ser} after {last[s]} from the same sender")
            last[s] = max(last.get(s, 0), ser)


# ------------------------------------------------------------------------------------------ async runner
async def _settle(world, rounds=3):
    """let every run loop drain: yield until no interpreter is processing and every queue is empty"""
    for _ in range(20000):
        if impl._HUNG[0]:
            raise impl.Hang()
        await asyncio.sleep(0)
        busy = False
        for it in world.objs:
            if it.status == "running" and (it._processing or not it._event_queue.empty()):
                busy = True
        if not busy:
            rounds -= 1
            if rounds <= 0:
                return
    raise impl.Hang()


def _fates(world):
    """what became of the delayed sends that carry an id (coverage of the id lifecycle)"""
    out = {}
    for a in world.attempts:
        if a["kind"] == "stopChild" or not a["delay"] or a["sid"] is None or a.get("due") is None:
            continue
        k = a.get("why") or ("race" if a.get("race") else "delivered" if a["serial"] is not None and world.received_before(a["serial"], world.seq + 1) else "pending-or-dropped")
        out[k] = out.get(k, 0) + 1
        if any(r["time"] == a["time"] and r["uid"] == a["sender"] for r in world.reacts) and any(
                b is not a and b["sender"] == a["sender"] and b["sid"] == a["sid"] and b.get("due") == a["time"] for b in world.attempts):
            out["rearmed-inside-own-delivery"] = out.get("rearmed-inside-own-delivery", 0) + 1
    return out


def _result(world, out):
    final_checks(world)
    # two delayed sends that really fire at one instant (a send taken away before its due time fires nothing)
    dues = [a["due"] for a in world.attempts if a.get("due") is not None and a["kind"] != "stopChild"
            and a.get("why") not in ("cancelled", "superseded", "sender-stopped")]
    return {"obs": out, "problems": world.problems, "n_actors": len(world.objs), "n_sends": len(world.attempts),
            "reacts": [{k: r[k] for k in ("op", "time", "seq", "actor", "kind", "msg")} for r in world.reacts],
            "n_cancels": len(world.cancels), "same_instant": len(dues) != len(set(dues)),
            "fates": _fates(world)}


async def _run_async(case, world, wh):
    out = []
    loop = asyncio.get_event_loop()
    world.clock = lambda: int(round(loop.time() * 1000))
    machine = build(case, world)
    root = Interpreter(machine)
    world.root = root
    await root.start()
    await _settle(world)
    out.append(observe(world, wh.items))
    for i, op in enumerate(case["ops"]):
        world.op = i + 1
        del wh.items[:]
        info = pre_op(world, case, op)
        tgt = info["tgt"]
        if op[0] == "cmd":
            if tgt is not None:
                ev = {"type": op[2], "to": world.uid_of(tgt)}
                if "serial" in info:
                    ev["k"] = info["serial"]
                await tgt.send(ev)
        elif op[0] == "adv":
            await asyncio.sleep(op[1] / 1000.0)
        elif op[0] in ("fin", "fail"):
            if tgt is not None:
                ev = {"type": "FIN" if op[0] == "fin" else "FAIL", "to": world.uid_of(tgt)}
                if "serial" in info:
                    ev["k"] = info["serial"]
                await tgt.send(ev)
            await asyncio.sleep(POLL_MS / 1000.0)
        elif op[0] == "stop":
            if tgt is not None:
                await tgt.stop()
        await _settle(world)
        post_op(world, case, info, list(wh.items))
        out.append(observe(world, wh.items))
    try:
        await root.stop()
    except Exception:
        pass
    return _result(world, out)


def run_async(case):
    world = World("async")
    wh = _Warn()
    lib = logging.getLogger("xstate_statemachine")
    old_uuid = _ai.uuid
    _ai.uuid = _Uuid()
    logging.disable(logging.INFO)
    lib.addHandler(wh)
    loop = impl.VirtualLoop()
    loop.set_exception_handler(lambda _l, _c: None)
    asyncio.set_event_loop(loop)
    try:
        return loop.run_until_complete(_run_async(case, world, wh))
    finally:
        lib.removeHandler(wh)
        logging.disable(logging.WARNING)
        _ai.uuid = old_uuid
        try:
            for t in asyncio.all_tasks(loop):
                t.cancel()
            loop.run_until_complete(asyncio.sleep(0))
        except BaseException:
            pass
        loop.close()
        asyncio.set_event_loop(None)


# ------------------------------------------------------------------------------------------ sync: virtual threads
class Sched:
    """Deterministic cooperative 'threads' on a virtual clock, backed by real threads + batons.
    Only one thread runs at a time; the controller (the harness thread) decides who and when.
    `eager`: a started thread runs at once until it first parks (the child of a non-blocking spawn is
    started before the spawning action returns); otherwise it first runs when the controller next lets
    ready threads run (after the current op). Both are legal schedules of the real engine."""

    def __init__(self, eager):
        self.now = 0.0
        self.seq = itertools.count()
        self.threads = []
        self.controller_sem = _rt.Semaphore(0)
        self.current = None
        self.eager = eager
        self.dead = False

    def _resume(self, vt):
        """run `vt` until it parks or ends; callable from the controller or from a virtual thread"""
        prev = self.current
        back = self.controller_sem if prev is None else _rt.Semaphore(0)
        vt.back = back
        self.current = vt
        vt.sem.release()
        if not back.acquire(timeout=20):
            raise impl.Hang()
        self.current = prev

    def _runnable(self):
        out = []
        for vt in self.threads:
            if vt.done or not vt.started:
                continue
            if vt.blocked_on is None:
                out.append((vt.ready_at, vt.id, vt))
            else:
                ev, deadline = vt.blocked_on
                if ev is not None and ev.flag:
                    out.append((vt.ready_at, vt.id, vt))
                elif deadline is not None and deadline <= self.now + 1e-12:
                    out.append((deadline, vt.id, vt))
        return sorted(out, key=lambda x: (x[0], x[1]))

    def run_ready(self):
        while True:
            r = self._runnable()
            if not r:
                return
            self._resume(r[0][2])

    def advance(self, dt):
        t = self.now + dt
        self.run_ready()
        while True:
            ds = [vt.blocked_on[1] for vt in self.threads if vt.started and not vt.done and vt.blocked_on
                  and vt.blocked_on[1] is not None and not (vt.blocked_on[0] and vt.blocked_on[0].flag)]
            ds = [d for d in ds if d <= t + 1e-12]
            if not ds:
                break
            self.now = max(self.now, min(ds))
            self.run_ready()
        self.now = max(self.now, t)

    def park(self, ev, timeout):
        vt = self.current
        if self.dead:
            raise SystemExit
        deadline = None if timeout is None else self.now + timeout
        if vt is None:
            # the controller itself would block: nothing in the engine does that on the harness thread
            if timeout is None:
                raise RuntimeError("controller would block forever")
            self.advance(timeout)
            return
        vt.blocked_on = (ev, deadline)
        vt.back.release()
        vt.sem.acquire()
        if self.dead:
            raise SystemExit
        vt.blocked_on = None
        vt.ready_at = self.now

    def kill(self):
        """release every parked thread so that it exits (end of a run)"""
        self.dead = True
        for vt in self.threads:
            if vt.started and not vt.done:
                vt.sem.release()


class VEvent:
    def __init__(self, s):
        self.s = s
        self.flag = False

    def set(self):
        self.flag = True

    def clear(self):
        self.flag = False

    def is_set(self):
        return self.flag

    def wait(self, timeout=None):
        if self.flag:
            return True
        self.s.park(self, timeout)
        return self.flag


class VThread:
    def __init__(self, s, target=None, name=None, daemon=None, args=(), kwargs=None):
        self.s = s
        self.target = target
        self.name = name
        self.daemon = daemon
        self.args = args
        self.kwargs = kwargs or {}
        self.id = next(s.seq)
        self.sem = _rt.Semaphore(0)
        self.started = False
        self.done = False
        self.blocked_on = None
        self.ready_at = 0.0
        self.back = s.controller_sem
        s.threads.append(self)

    def _run(self):
        self.sem.acquire()
        try:
            if not self.s.dead:
                self.target(*self.args, **self.kwargs)
        except SystemExit:
            pass
        except BaseException:
            pass
        finally:
            self.done = True
            if not self.s.dead:
                self.back.release()

    def start(self):
        # a library that spins (a macrostep that never ends) may start a timer / watcher thread per iteration: thousands of
        # parked OS threads slow everything down long before the watchdog fires - treated as the hang it is
        if sum(1 for t in self.s.threads if t.started and not t.done) > 6000:
            impl._HUNG[0] = True
            raise impl.Hang()
        self.started = True
        self.ready_at = self.s.now
        _rt.Thread(target=self._run, daemon=True).start()
        if self.s.eager:
            self.s._resume(self)

    def is_alive(self):
        return self.started and not self.done

    def join(self, timeout=None):
        pass


class _ThreadingShim:
    def __init__(self, s):
        self.Event = lambda: VEvent(s)
        self.Thread = lambda *a, **k: VThread(s, *a, **k)
        self.Lock = _rt.Lock
        self.RLock = _rt.RLock
        self.current_thread = _rt.current_thread
        self.enumerate = lambda: []


class _TimeShim:
    def __init__(self, s):
        self.s = s

    def sleep(self, d):
        self.s.park(None, d)

    def time(self):
        return self.s.now

    def monotonic(self):
        return self.s.now

    def perf_counter(self):
        return self.s.now


def run_sync(case):
    world = World("sync")
    wh = _Warn()
    lib = logging.getLogger("xstate_statemachine")
    sched = Sched(bool(case.get("eager", True)))
    world.clock = lambda: int(round(sched.now * 1000))
    saved = (_si.uuid, _si.threading, _si.time)
    _si.uuid = _Uuid()
    _si.threading = _ThreadingShim(sched)
    _si.time = _TimeShim(sched)
    logging.disable(logging.INFO)
    lib.addHandler(wh)
    out = []
    try:
        machine = build(case, world)
        root = SyncInterpreter(machine)
        world.root = root
        root.start()
        sched.run_ready()
        out.append(observe(world, wh.items))
        for i, op in enumerate(case["ops"]):
            world.op = i + 1
            del wh.items[:]
            info = pre_op(world, case, op)
            tgt = info["tgt"]
            if op[0] == "cmd":
                if tgt is not None:
                    ev = {"type": op[2], "to": world.uid_of(tgt)}
                    if "serial" in info:
                        ev["k"] = info["serial"]
                    tgt.send(ev)
            elif op[0] == "adv":
                sched.advance(op[1] / 1000.0)
            elif op[0] in ("fin", "fail"):
                if tgt is not None:
                    ev = {"type": "FIN" if op[0] == "fin" else "FAIL", "to": world.uid_of(tgt)}
                    if "serial" in info:
                        ev["k"] = info["serial"]
                    tgt.send(ev)
                sched.advance(POLL_MS / 1000.0)
            elif op[0] == "stop":
                if tgt is not None:
                    tgt.stop()
            sched.run_ready()
            post_op(world, case, info, list(wh.items))
            out.append(observe(world, wh.items))
        try:
            root.stop()
            sched.run_ready()
        except Exception:
            pass
        return _result(world, out)
    finally:
        sched.kill()
        lib.removeHandler(wh)
        logging.disable(logging.WARNING)
        _si.uuid, _si.threading, _si.time = saved


RUNNERS = {"sync": run_sync, "async": run_async}


def run_guarded(flavor, case, timeout=10):
    """one case under the SIGALRM watchdog: ('ok', obs) | ('hang', None) | ('crash', text)"""
    old = signal.signal(signal.SIGALRM, impl._alarm)
    impl._HUNG[0] = False
    signal.setitimer(signal.ITIMER_REAL, timeout, 0.2)
    try:
        r = RUNNERS[flavor](case)
        signal.setitimer(signal.ITIMER_REAL, 0)
        if impl._HUNG[0]:
            return ("hang", None)
        return ("ok", r)
    except impl.Hang:
        signal.setitimer(signal.ITIMER_REAL, 0)
        return ("hang", None)
    except Exception as x:
        signal.setitimer(signal.ITIMER_REAL, 0)
        if impl._HUNG[0]:
            return ("hang", None)
        return ("crash", f"{type(x).__name__}: {x}"[:400])
    finally:
        signal.setitimer(signal.ITIMER_REAL, 0)
        signal.signal(signal.SIGALRM, old)


def worker(args):
    flavor, case, timeout = args
    try:
        return run_guarded(flavor, case, timeout)
    except impl.Hang:
        # the repeating watchdog fired once more while run_guarded was unwinding: a hang, not a harness crash
        for _ in range(10):
            try:
                signal.setitimer(signal.ITIMER_REAL, 0)
                break
            except impl.Hang:
                continue
        return ("hang", None)
    except BaseException as e:
        return ("crash", f"HARNESS:{type(e).__name__}: {e}"[:300])
