"""C14, supplement: stop() of an interpreter that owns an ACTOR SUBTREE (both engines).

"... when it returns every timer, delayed send, service task, timer thread and descendant actor that interpreter
created has been cancelled or stopped, and none of them delivers anything afterwards."  The lifecycle streams of
c14.py have no actors.  The actor worlds of the C15 check do (trees of depth <= 3 built by spawnChild / spawn_ /
invoke, children that finish or fail BY THEMSELVES while they own live descendants, delayed sends in flight), with a
census after every operation; here every such op sequence is made to end in a stop() of the root (plus a stretch of
virtual time), the run is tied to the Lean actor model exactly as in C15, and only what concerns stop() is judged:

  * subtree-not-stopped                      a descendant that was in the tree when stop() was called is not `stopped`
  * running-under-stopped-ancestor           an actor is running although an ancestor is stopped
  * running-under-dropped-finished-ancestor  an actor is running under a finished child that nobody can reach any more
  * received-after-stop                      an actor processed an event after its stop notification

from the first top-level stop() of the sequence onwards (what stopChild does before that is C15's business).
"""
from __future__ import annotations
import copy
import json

from . import c15, core

LIFECYCLE_KINDS = ("subtree-not-stopped", "running-under-stopped-ancestor", "running-under-dropped-finished-ancestor", "received-after-stop")


def _with_final_stop(case):
    c = copy.deepcopy(case)
    ops = c["ops"]
    if not any(o[0] == "stop" and o[1] == "r" for o in ops):
        ops.append(["stop", "r"])
    ops.append(["adv", 400])
    c["id"] = "c14-" + str(c.get("id"))
    return c


def _payload(c):
    """replay payload: the C15 world under `c15`; `eager` / `cmds` repeated at top level for the finding classifiers"""
    return {"c15": c, "eager": c.get("eager", True), "cmds": c["cmds"]}


def _first_stop(case):
    return next((i + 1 for i, o in enumerate(case["ops"]) if o[0] == "stop"), None)


def cases_for(tier, seed, flavor):
    n = 60 * (8 if tier == "thorough" else 1)
    out = list(c15.directed_cases()) + list(c15.completion_directed(flavor))
    out += [c15.gen_completion_case(seed + 77, i, flavor) for i in range(n)]
    for prof in c15.PROFILES:
        out += [c15.gen_case(seed + 77, prof, i) for i in range(n // 3)]
    return [_with_final_stop(c) for c in out]


def c14_actor_subtrees(tier, seed):
    ties, fails, samples = [], [], []
    evals = nontrivial = 0
    feats = {"actors": 0, "stops_of_a_tree": 0, "finished_children_at_stop": 0, "oos_cases": 0}
    for flavor in ("sync", "async"):
        cases = cases_for(tier, seed, flavor)
        ir = c15.run_impl_many(flavor, cases)
        mr = c15.run_model_many(cases, flavor)
        for c, (st, res), mobs in zip(cases, ir, mr):
            evals += 1
            if st != "ok":
                try:
                    st, res = core.pool().apply_async(c15._worker, ((flavor, c, 40),)).get(90)
                except Exception:
                    core.close_pool()
            if st != "ok":
                fails.append({"kind": "hang" if st == "hang" else "raw-exception", "flavor": flavor, "case": _payload(c),
                              "detail": f"the real engine did not complete the op sequence: {st} {res}"})
                continue
            feats["actors"] += res["n_actors"]
            oos_at = next((i for i, o in enumerate(mobs) if o.get("oos")), None)
            if oos_at is not None:
                feats["oos_cases"] += 1
            d = c15.diff(res["obs"], mobs)
            if d is not None:
                ties.append({"query": "actors-then-stop", "flavor": flavor, "case": c, "first_difference": d})
            fs = _first_stop(c)
            if res["n_actors"] >= 2:
                feats["stops_of_a_tree"] += 1
            if c.get("completion"):
                feats["finished_children_at_stop"] += sum(1 for o in c["ops"] if o[0] in ("fin", "fail"))
            bad = False
            for p in res["problems"]:
                if p["kind"] not in LIFECYCLE_KINDS or fs is None or p["step"] < fs:
                    continue
                if oos_at is not None and p["step"] >= oos_at:
                    continue            # an actor stopped itself / an ancestor through a systemId: outside the model and the property
                bad = True
                fails.append(dict({k: v for k, v in p.items() if k != "actor_obj"}, flavor=flavor, case=_payload(c)))
            if not bad and d is None and res["n_actors"] >= 3:
                nontrivial += 1
                if len(samples) < 2 and len(json.dumps(c)) < 1500:
                    samples.append({"flavor": flavor, "case": c, "final_tree": res["obs"][-1]["tree"]})
    return {"evaluations": evals, "nontrivial": nontrivial, "ties": ties, "fails": fails, "samples": samples, "exhaustive": False,
            "what": f"actor trees (the worlds of the C15 check: spawnChild / spawn_ / invoke, depth <= 3, children that finish or fail by themselves "
                    f"while they own live descendants, delayed sends in flight), every op sequence ended by stop() of the root and 400 ms of virtual "
                    f"time, both engines, tied to the Lean actor model; judged from the first stop() on: every descendant stopped, nothing running "
                    f"under a stopped or unreachable ancestor, nothing processed after the stop; {json.dumps(feats)}"}


def replay_problems(c15case, flavor):
    fs = _first_stop(c15case)
    return [p for p in c15.replay_problems(c15case, flavor) if p["kind"] in LIFECYCLE_KINDS and fs is not None and p.get("step", 0) >= fs]
