"""Deep fingerprint of a built MachineNode, structural diff with construct classification, and a
trace runner that drives two machine OBJECTS with the same Recorder logic (C17).

The generator's own gate (`cli/validation._collect`) compares guards by type name and invokes by
`src` only; this fingerprint keeps everything that changes behaviour:
  per state   kind, initial, history kind + default target, custom id, tags, meta, output, entry/exit actions
              WITH params, `on` / `after` / onDone transitions, invoke definitions (id, src, input, handlers)
  transition  event, RESOLVED target, actions with params, guard with FULL structure and params, reenter, forbidden
  machine     id, initial context, maxIterations, machine output
"""
from __future__ import annotations
import json


def _canon(x):
    """JSON-able canonical copy (tuples -> lists, sets -> sorted lists, other objects -> repr)"""
    if isinstance(x, dict):
        return {str(k): _canon(v) for k, v in x.items()}
    if isinstance(x, (list, tuple)):
        return [_canon(v) for v in x]
    if isinstance(x, (set, frozenset)):
        return sorted(_canon(v) for v in x)
    if x is None or isinstance(x, (bool, int, float, str)):
        return x
    return "<" + type(x).__name__ + ">"


def guard_fp(g):
    if g is None:
        return None
    kids = [guard_fp(c) for c in (getattr(g, "children", None) or [])]
    if getattr(g, "is_composite", False):
        return {"$g": "composite", "op": g.type, "operands": kids}
    return {"$g": "stateIn" if getattr(g, "is_state_in", False) else "named", "type": g.type, "params": _canon(g.params),
            "operands": kids}


def _rel(root_id, sid):
    if sid == root_id:
        return "<root>"
    if sid.startswith(root_id + "."):
        return sid[len(root_id) + 1:]
    return sid


def _resolved(t, root_id):
    if t.target_str is None:
        return None
    from xstate_statemachine.resolver import resolve_target_state
    try:
        return _rel(root_id, resolve_target_state(t.target_str, t.source).id)
    except Exception:
        return "<unresolved:%s>" % t.target_str


def trans_fp(t, root_id):
    ev = t.event
    # after./done.state./done.invoke. events embed the source id, which embeds the machine id: keep as is
    return {"event": ev, "target": _resolved(t, root_id), "actions": [[a.type, _canon(a.params)] for a in t.actions],
            "guard": guard_fp(t.guard_def), "reenter": bool(t.reenter), "forbidden": bool(getattr(t, "forbidden", False))}


def state_fp(node, root_id):
    od = node.on_done
    if od is not None and not isinstance(od, (list, tuple)):
        od = [od]
    hist_default = None
    if node.type == "history" and getattr(node, "target_str", None) is not None:
        from xstate_statemachine.resolver import resolve_target_state
        try:
            hist_default = _rel(root_id, resolve_target_state(node.target_str, node).id)
        except Exception:
            hist_default = "<unresolved:%s>" % node.target_str
    return {
        "kind": node.type, "initial": node.initial, "history": node.history, "history_default": hist_default,
        "custom_id": getattr(node, "custom_id", None),
        "tags": sorted(node.tags or []), "meta": _canon(node.meta or {}), "output": _canon(getattr(node, "output", None)),
        "entry": [[a.type, _canon(a.params)] for a in node.entry],
        "exit": [[a.type, _canon(a.params)] for a in node.exit],
        "on": {ev: [trans_fp(t, root_id) for t in ts] for ev, ts in node.on.items()},
        "after": {str(d): [trans_fp(t, root_id) for t in ts] for d, ts in node.after.items()},
        "after_key_types": sorted({type(d).__name__ + ":" + str(d) for d in node.after}),
        "on_done": [trans_fp(t, root_id) for t in (od or [])],
        "invoke": [{"id": i.id, "src": i.src, "input": _canon(i.input),
                    "on_done": [trans_fp(t, root_id) for t in i.on_done],
                    "on_error": [trans_fp(t, root_id) for t in i.on_error]} for i in node.invoke],
        "children": list(node.states.keys()),
    }


def fingerprint(machine):
    fp = {"$machine": {"id": machine.id, "context": _canon(machine.initial_context),
                       "max_iterations": getattr(machine, "max_iterations", None),
                       "output": _canon(getattr(machine, "machine_output", None))}}

    def walk(n):
        fp[_rel(machine.id, n.id)] = state_fp(n, machine.id)
        for c in n.states.values():
            walk(c)
    walk(machine)
    return fp


def _is_guard(x):
    return isinstance(x, dict) and "$g" in x


def leaf_diffs(exp, got, path=()):
    """parallel descent; guards are compared as units; yields (path, exp, got)"""
    if _is_guard(exp) or _is_guard(got):
        if exp != got:
            yield (path, exp, got)
        return
    if isinstance(exp, dict) and isinstance(got, dict):
        for k in list(exp) + [k for k in got if k not in exp]:
            if k not in exp:
                yield (path + (k,), "<absent>", got[k])
            elif k not in got:
                yield (path + (k,), exp[k], "<absent>")
            else:
                yield from leaf_diffs(exp[k], got[k], path + (k,))
        return
    if isinstance(exp, list) and isinstance(got, list) and len(exp) == len(got):
        for i, (a, b) in enumerate(zip(exp, got)):
            yield from leaf_diffs(a, b, path + (i,))
        return
    if exp != got:
        yield (path, exp, got)


def classify_guard_diff(exp, got):
    """which construct(s) were lost between the source guard `exp` and the generated guard `got`: a '+'-joined, sorted list"""
    return "+".join(sorted(_guard_diff_set(exp, got)))


def _guard_diff_set(exp, got):
    if not _is_guard(exp):
        return {"guard-added" if _is_guard(got) else "not-a-guard"}
    if not _is_guard(got):
        return {"guard-removed"}
    if exp["$g"] == "composite":
        if got["$g"] == "named" and got["type"] == exp["op"] and not got["operands"]:
            return {"composite-operands-dropped"}          # {"type":"and","children":[..]} -> "and"
        if got["$g"] == "composite" and got["op"] == exp["op"] and len(got["operands"]) == len(exp["operands"]):
            out = set()
            for a, b in zip(exp["operands"], got["operands"]):
                if a != b:
                    out |= _guard_diff_set(a, b)
            if "guard-differs" in out:
                # different operands altogether: the generator read them from another key than the library does
                out = (out - {"guard-differs"}) | {"composite-operands-misread"}
            return out or {"composite-differs"}
        if got["$g"] == "composite" and got["op"] == exp["op"]:
            return {"composite-operands-misread"}
        return {"composite-differs"}
    if exp["$g"] == "stateIn":
        if got["$g"] == "stateIn" and exp["params"] is not None and got["params"] is None:
            return {"stateIn-params-dropped"}
        return {"stateIn-differs"}
    if got["$g"] == "named" and got["type"] == exp["type"]:
        if exp["params"] != got["params"] and exp["operands"] == got["operands"] and (
                got["params"] is None or (isinstance(exp["params"], dict) and isinstance(got["params"], dict)
                                          and all(exp["params"].get(k) == v for k, v in got["params"].items()))):
            return {"guard-params-dropped"}          # all of them, or all but the operand list
        if exp["operands"] and not got["operands"]:
            return {"guard-operands-dropped"}
    return {"guard-differs"}


def diff_fingerprints(exp, got, limit=12):
    """list of {"state", "field", "construct", "expected", "generated"}; `construct` names what was lost"""
    out = []
    for st in sorted(set(exp) | set(got)):
        if st not in got:
            out.append({"state": st, "field": "*", "construct": "state-missing", "expected": "present", "generated": "absent"})
            continue
        if st not in exp:
            out.append({"state": st, "field": "*", "construct": "state-invented", "expected": "absent", "generated": "present"})
            continue
        for path, a, b in leaf_diffs(exp[st], got[st]):
            field = str(path[0]) if path else "*"
            if _is_guard(a) or _is_guard(b):
                construct = classify_guard_diff(a, b)
            else:
                construct = field + ("." + str(path[-1]) if len(path) > 1 and isinstance(path[-1], str) else "") + "-differs"
            out.append({"state": st, "field": "/".join(str(p) for p in path), "construct": construct,
                        "expected": json.dumps(a, sort_keys=True, default=str)[:300], "generated": json.dumps(b, sort_keys=True, default=str)[:300]})
            if len(out) >= limit:
                return out
    return out


# ---- what a machine references, what a logic binds ------------------------------------------------
def referenced_names(machine):
    """(actions, guards, services, delays) a user must implement: everything but built-ins, `spawn_*`, composite
    operators and `stateIn` — computed on the PARSED machine, independently of cli/extractor.py"""
    from xstate_statemachine.actions import is_builtin
    acts, guards, svcs, delays = set(), set(), set(), set()

    def gnames(g):
        if g is None:
            return
        if g.is_composite:
            for c in g.children:
                gnames(c)
            return
        if g.is_state_in:
            return
        guards.add(g.type)
        for c in (g.children or []):
            gnames(c)

    def adef(a):
        if a.type.startswith("spawn_"):
            svcs.add(a.type[len("spawn_"):])
        elif not is_builtin(a.type):
            acts.add(a.type)

    def tr(t):
        for a in t.actions:
            adef(a)
        gnames(t.guard_def)

    def walk(n):
        for a in list(n.entry) + list(n.exit):
            adef(a)
        for ts in n.on.values():
            for t in ts:
                tr(t)
        for d, ts in n.after.items():
            if isinstance(d, str):
                delays.add(d)
            for t in ts:
                tr(t)
        od = n.on_done
        for t in (od if isinstance(od, (list, tuple)) else ([od] if od else [])):
            tr(t)
        for i in n.invoke:
            if i.src:
                svcs.add(i.src)
            for t in list(i.on_done) + list(i.on_error):
                tr(t)
        for c in n.states.values():
            walk(c)
    walk(machine)
    return acts, guards, svcs, delays


# ---- traces -----------------------------------------------------------------------------------------
class _AnyDelay(dict):
    def get(self, k, d=None):
        return 1000

    def __contains__(self, k):
        return True


class _AnyService(dict):
    def __init__(self, log):
        super().__init__()
        self.log = log

    def get(self, k, d=None):
        log = self.log

        def svc(interp, ctx, ev, _k=k):
            log.append("svc:" + str(_k))
            if "fail" in str(_k).lower():
                raise RuntimeError("service failed")
            return {"ok": 1}
        return svc

    def __contains__(self, k):
        return True


def trace_events(machine, rng, n_seq, length):
    """event sequences drawn from what the SOURCE machine declares: user events (wildcards instantiated), after
    events, done.invoke events"""
    users, afters, dones = set(), [], []

    def walk(n):
        for ev in n.on:
            if ev == "":
                continue
            if ev == "*":
                users.add("anything")
            elif ev.endswith(".*"):
                users.add(ev[:-2] + ".x")
            else:
                users.add(ev)
        for ts in n.after.values():
            for t in ts:
                afters.append(t.event)
        for i in n.invoke:
            for t in i.on_error:
                dones.append(("error", t.event, i.id))
        for c in n.states.values():
            walk(c)
    walk(machine)
    users = sorted(users) or ["NOOP"]
    seqs = []
    for _ in range(n_seq):
        ops = []
        for _ in range(length):
            r = rng.random()
            if afters and r < 0.2:
                ops.append(["after", rng.choice(sorted(set(afters)))])
            else:
                ops.append(["send", rng.choice(users)])
        seqs.append(ops)
    return seqs


def run_trace(machine, gv, ops):
    """drive `machine` (its logic REPLACED by the Recorder logic) with the sync engine; timers never fire on their
    own (after events are sent explicitly); services complete synchronously. Returns a list of observations."""
    from . import impl
    from xstate_statemachine import SyncInterpreter
    from xstate_statemachine.exceptions import XStateMachineError

    log = []

    class TraceInterp(SyncInterpreter):
        def _after_timer(self, delay_sec, event, owner_id):
            log.append("sched:%s:%s" % (event.type, round(delay_sec * 1000)))

    lg = impl.mklogic(log, gv)
    lg.services = _AnyService(log)
    lg.delays = _AnyDelay()
    old = machine.logic
    machine.logic = lg
    # harness-side bound on transient loops, the same on both machines (the pythonic templates cannot carry `maxIterations`,
    # and a source machine that loops 1000 rounds per event is C13's subject, not the generator's)
    old_mi = getattr(machine, "max_iterations", None)
    machine.max_iterations = 20
    out = []

    def obs(it, err=""):
        return {"C": sorted(n.id for n in it._active_state_nodes), "S": it.status, "T": list(log), "E": err,
                "K": json.dumps(_canon(dict(it.context)) if isinstance(it.context, dict) else None, sort_keys=True, default=str)}
    try:
        it = TraceInterp(machine)
        it.use(impl.RecorderPlugin(log))
        try:
            it.start()
            out.append(obs(it))
        except XStateMachineError as x:
            out.append(obs(it, type(x).__name__))
        except Exception as x:
            out.append(obs(it, "RAW:" + type(x).__name__))
        for op in ops:
            log.clear()
            try:
                it.send(impl._mk_event(op))
                out.append(obs(it))
            except XStateMachineError as x:
                out.append(obs(it, type(x).__name__))
            except Exception as x:
                out.append(obs(it, "RAW:" + type(x).__name__))
        try:
            it.stop()
        except Exception:
            pass
    finally:
        machine.logic = old
        if old_mi is not None:
            machine.max_iterations = old_mi
    return out


def first_trace_diff(a, b):
    for i, (x, y) in enumerate(zip(a, b)):
        if x != y:
            keys = [k for k in x if x[k] != y.get(k)]
            return {"step": i, "fields": keys, "source": {k: x[k] for k in keys}, "generated": {k: y.get(k) for k in keys}}
    if len(a) != len(b):
        return {"step": min(len(a), len(b)), "fields": ["len"]}
    return None
