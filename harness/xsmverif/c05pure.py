"""C05, pure API: the TIE between the model of the pure functions (lean/Xsm/Model/Pure.lean, through `driver_pure`)
and the real `initial_transition` / `transition` of helpers.py, chained over the event list of a generated case.

Compared at every step (the initial snapshot, then one per event): configuration, status, (integer part of the)
context, remembered history (owner -> remembered ids, in order), the reported action list with built-in names
filtered out (the projection the monitor `multichecks.pure_compare` uses: the engine model logs user actions only),
and the exception class when the call raises (the chain ends there on both sides).

The MONITOR on the real code (pure API vs SyncInterpreter, no user code run, inputs untouched) stays
`multichecks.c05_pure`; this check says the model of Pure.lean IS the code on everything explored, including the
cases the monitor has to skip (user actions that change the context or fail, missing implementations, coroutine
actions: the pure API records them and goes on, and so does the model)."""
from __future__ import annotations
import copy, json, os, subprocess
from . import core, gen, modelio

DRIVER = os.path.join(modelio.LEAN_DIR, ".lake", "build", "bin", "driver_pure")


# ------------------------------------------------------------------------------------------- implementation side
def _pure_steps(case):
    """run the real pure API on a case: one observation per call, the chain ends at the first exception"""
    from xstate_statemachine import create_machine
    from xstate_statemachine.exceptions import XStateMachineError
    from xstate_statemachine.helpers import initial_transition, transition
    from . import impl
    log = []
    machine = create_machine(copy.deepcopy(case["machine"]), logic=impl.mklogic(log, case["guards"]))

    def obs(snap, acts):
        hist = getattr(snap, "history", None)
        return {"C": sorted(snap.configuration), "S": snap.status,
                "K": {k: v for k, v in snap.context.items() if isinstance(v, int) and not isinstance(v, bool)},
                "H": None if hist is None else {k: list(v) for k, v in hist.items()},
                "A": [a.type for a in acts], "E": ""}

    out = []
    snap = None
    for i, ev in enumerate([None] + list(case["events"])):
        try:
            snap, acts = initial_transition(machine) if i == 0 else transition(machine, snap, ev)
        except impl.Hang:
            raise
        except XStateMachineError as x:
            out.append({"E": type(x).__name__})
            break
        except Exception as x:
            out.append({"E": "RAW:" + type(x).__name__})
            break
        out.append(obs(snap, acts))
    return out


def _pure_worker(case, watchdog=8):
    import signal
    from . import impl
    old = signal.signal(signal.SIGALRM, impl._alarm)
    signal.setitimer(signal.ITIMER_REAL, watchdog, 0.2)
    try:
        return ("ok", _pure_steps(case))
    except impl.Hang:
        return ("hang", None)
    except Exception as e:
        return ("crash", f"{type(e).__name__}: {e}"[:200])
    finally:
        for _ in range(5):
            try:
                signal.setitimer(signal.ITIMER_REAL, 0)
                break
            except impl.Hang:
                continue
        signal.signal(signal.SIGALRM, old)


# ------------------------------------------------------------------------------------------------- model side
def _case_lines(case):
    gv = case.get("guards", {})
    return (["M " + json.dumps(case["machine"]), "G " + " ".join(f"{k}={v}" for k, v in gv.items()), "PSTART"]
            + ["PSEND " + e for e in case["events"]])


def run_model_pure(cases):
    """per case ('ok', [obs...]) | ('reject', err); one driver_pure process for the whole batch. The driver answers
    every PSEND after the chain has ended with `no-snapshot`: those are dropped (the chain ends at the exception)."""
    lines, spans = [], []
    for c in cases:
        ls = _case_lines(c)
        spans.append((len(lines), len(ls)))
        lines.extend(ls)
    r = subprocess.run([DRIVER], input="\n".join(lines) + "\n", capture_output=True, text=True, timeout=600)
    if r.returncode != 0:
        raise core.CheckError(f"driver_pure exit {r.returncode}: {r.stderr[:300]}")
    out = r.stdout.split("\n")
    if out and out[-1] == "":
        out = out[:-1]
    if len(out) != len(lines):
        raise core.CheckError(f"driver_pure answered {len(out)} lines for {len(lines)} commands")
    res = []
    for a, n in spans:
        chunk = [json.loads(x) for x in out[a:a + n]]
        if not chunk[0].get("ok"):
            res.append(("reject", chunk[0].get("err", "")))
            continue
        obs = []
        for o in chunk[2:]:
            if o.get("E") == "no-snapshot":
                break
            obs.append(o)
        res.append(("ok", obs))
    return res


# ---------------------------------------------------------------------------------------------------- the diff
def _canon(o, builtins, with_hist):
    if o.get("E"):
        return {"E": o["E"]}
    d = {"C": sorted(o["C"]), "S": o["S"], "K": dict(sorted((o.get("K") or {}).items())),
         "A": [a for a in o["A"] if a not in builtins], "E": ""}
    if with_hist:
        d["H"] = {k: list(v) for k, v in sorted((o.get("H") or {}).items())}
    return d


def diff_pure(impl_obs, model_obs):
    """first difference between the pure API's observations and the model's, or None. A library whose PureSnapshot
    has no `history` attribute (before the repair of F4) exposes nothing to compare the model's history with: the
    other fields are still compared here and the missing attribute is reported once by the caller."""
    from .actions_names import BUILTINS
    for i, (a, b) in enumerate(zip(impl_obs, model_obs)):
        with_hist = bool(a.get("E")) or a.get("H") is not None
        ca, cb = _canon(a, BUILTINS, with_hist), _canon(b, BUILTINS, with_hist)
        if ca != cb:
            keys = sorted(set(ca) | set(cb), key=str)
            keys = [k for k in keys if ca.get(k) != cb.get(k)]
            return {"step": i, "fields": keys, "impl": {k: ca.get(k) for k in keys}, "model": {k: cb.get(k) for k in keys}}
    if len(impl_obs) != len(model_obs):
        return {"step": min(len(impl_obs), len(model_obs)), "fields": ["len"], "impl": len(impl_obs), "model": len(model_obs)}
    return None


# ------------------------------------------------------------------------------------------------ directed cases
def _m(states, initial, **kw):
    return {"id": "m", "initial": initial, "states": states, "maxIterations": 25, **kw}


def directed_cases():
    raise_next = {"type": "xstate.raise", "params": {"event": {"type": "NEXT"}}}
    cs = []
    # F32 witness: raise processed within the same call
    cs.append(("raise", _m({"a": {"entry": ["en:a"], "exit": ["ex:a"], "on": {"GO": {"actions": ["tr:a:GO", raise_next]}, "NEXT": "b"}},
                            "b": {"entry": ["en:b"]}}, "a"), ["GO", "NEXT"]))
    # choose: first passing branch, nested choose, a raise inside a branch, assign inside a branch
    cs.append(("choose", _m({"a": {"on": {"GO": {"actions": ["t0", {"type": "choose", "params": {"conditions": [
        {"guard": "eq:n:1", "actions": ["no"]},
        {"guard": "eq:n:0", "actions": ["yes", {"type": "assign", "params": {"assignment": {"n": 1}}},
                                        {"type": "xstate.choose", "params": {"conditions": [{"actions": ["inner", raise_next]}]}}]},
        {"actions": ["never"]}]}}, "t1"]}, "NEXT": "b"}},
        "b": {"entry": ["en:b"], "on": {"GO": "a"}}}, "a", context={"n": 0}), ["GO", "GO", "GO"]))
    # choose whose guard has no implementation: contained, the rest of the list is skipped
    cs.append(("choose-missing-guard", _m({"a": {"on": {"GO": {"target": "b", "actions": ["t0", {"type": "choose", "params": {"conditions": [
        {"guard": "nosuchguard", "actions": ["x"]}]}}, "skipped"]}}}, "b": {"entry": ["en:b"]}}, "a"), ["GO"]))
    # F4 witness: history remembered across calls (shallow + deep under a parallel owner)
    cs.append(("history", {"id": "m", "initial": "P", "maxIterations": 25, "states": {
        "P": {"type": "parallel", "on": {"OUT": "#m.o"}, "states": {
            "r1": {"initial": "a", "states": {"a": {"on": {"N": "b"}}, "b": {"entry": ["en:b"]}}},
            "r2": {"initial": "c", "states": {"c": {"on": {"N": "d"}}, "d": {"initial": "d1", "states": {"d1": {"on": {"M": "d2"}}, "d2": {}}}}},
            "hd": {"type": "history", "history": "deep"}, "hs": {"type": "history"}}},
        "o": {"on": {"BACK": "#m.P.hd", "SHALLOW": "#m.P.hs"}}}}, ["N", "M", "OUT", "BACK", "OUT", "SHALLOW"]))
    # F5 witness: a completed machine ignores events
    cs.append(("done", _m({"a": {"on": {"GO": "f"}}, "f": {"type": "final", "entry": ["en:f"]}}, "a",
                          on={"X": {"actions": ["tr::X"]}}), ["GO", "X", "GO"]))
    # user actions that would change the context / fail / be missing / be coroutines: recorded, nothing else
    cs.append(("recorded-only", _m({"a": {"entry": ["inc:n", "fail:1", "after-fail"], "on": {
        "GO": {"target": "b", "actions": ["set:n:4", "missing:1", "async:1", "tail"], "guard": "lt:n:1"}}},
        "b": {"entry": ["en:b"]}}, "a", context={"n": 0}), ["GO", "GO"]))
    # a guard with no implementation: the call raises
    cs.append(("missing-guard", _m({"a": {"on": {"GO": {"target": "b", "guard": "nosuch"}}}, "b": {}}, "a"), ["GO", "GO"]))
    return [{"id": "pure-directed-" + n, "machine": m, "guards": {}, "events": evs, "features": ["directed"]} for n, m, evs in cs]


# ------------------------------------------------------------------------------------------------- the q_check
PROFILES = ("core", "select", "done", "history", "histdirected", "actions", "faults", "loops", "probe")


def c05_pure_tie(tier, seed, n=50):
    scale = 6 if tier == "thorough" else 1
    cases = directed_cases()
    for prof in PROFILES:
        cases += [gen.gen_case(seed, prof, 14000 + i) for i in range(n * scale)]
    ri = core.pool().map(_pure_worker, cases, chunksize=4)
    # a watchdog cut on a loaded machine is not a verdict: once more, alone, with a generous watchdog
    ri = [(_pure_worker(c, 40) if st == "hang" else (st, o)) for c, (st, o) in zip(cases, ri)]
    rm = []
    for i in range(0, len(cases), 200):
        rm.extend(run_model_pure(cases[i:i + 200]))
    ties, samples = [], []
    evals = nontrivial = 0
    if any(s1 == "ok" and any(not o.get("E") and o.get("H") is None for o in o1) for (s1, o1) in ri):
        ties.append({"case": None, "step": -1, "fields": ["H"], "impl": "PureSnapshot has no `history` attribute",
                     "model": "the snapshot carries the remembered history (PureSnap.hist)"})
    feats = {"raise": 0, "choose": 0, "history": 0, "done": 0, "raised": 0}
    for c, (s1, o1), (s2, o2) in zip(cases, ri, rm):
        evals += 1
        if s1 != "ok" or s2 != "ok":
            # create_machine refusing the config and the model refusing it agree; anything else is a disagreement
            if not (s1 == "crash" and s2 == "reject"):
                ties.append({"case": c, "step": -1, "fields": ["run"], "impl": f"{s1} {o1 if s1 != 'ok' else ''}"[:200],
                             "model": f"{s2} {o2 if s2 != 'ok' else ''}"[:200]})
            continue
        d = diff_pure(o1, o2)
        if d is not None:
            ties.append(dict(d, case=c))
            continue
        if any(o.get("A") for o in o1[1:]):
            nontrivial += 1
        for f in ("raise", "choose"):
            feats[f] += f in c.get("features", []) or c["id"].endswith(f)
        feats["history"] += any(o.get("H") for o in o1)
        feats["done"] += any(o.get("S") == "done" for o in o1[:-1])
        feats["raised"] += any(o.get("E") for o in o1)
        if len(samples) < 2 and len(json.dumps(c)) < 1500 and any(o.get("A") for o in o1[1:]):
            samples.append({"case": c, "pure": o1[-1]})
    return {"evaluations": evals, "nontrivial": nontrivial, "ties": ties, "fails": [], "samples": samples, "exhaustive": False,
            "what": "model of the pure API (Pure.lean via driver_pure) vs the real initial_transition/transition chained over the event list: "
                    "configuration, status, context, remembered history, reported user actions and raised exception class at every call; "
                    f"profiles {list(PROFILES)} + {len(directed_cases())} directed cases; agreeing cases with a raise/choose machine, a "
                    f"non-empty history, an event after done, an exception: {feats}"}
